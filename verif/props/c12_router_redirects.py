"""C12 - router redirects stay on the bound host and converge.

Every RequestRedirect raised by MapAdapter.match itself is checked: scheme/host/script root are
the bound ones, the query is preserved, and the redirect is *followed* (strip script root,
percent-decode once, match again): no loop, at most a few hops, ends in a match whose
(endpoint, arguments) is one the original path denotes under the lenient reading of the rules.
"""
from __future__ import annotations

from urllib.parse import parse_qsl, quote, unquote, urlsplit

from ..models import routing_ref as R
from ..monitors.reach import Reach, opt
from . import c03_routing_match as C3

ID = "C12"
RULE = (
    "rule maps from the C03 grammar extended with defaults pairs and alias rules, strict_slashes / merge_slashes per "
    "map and per rule (None/True/False each), redirect_defaults on/off, script_name in {'/', '/app', '/app/', '/a/b'}, "
    "http/https, subdomains; paths = every C03 path plus leading '//host', '///host', '/\\\\host' forms, repeated "
    "slashes at every position, non-ASCII, '%', '%2F', '?', '#'; string and mapping queries with Unicode and repeated "
    "keys; non-trivial = the router raised a redirect; distinct = distinct (map, settings, path, query kind) hashes"
)
REQUIRED_OBS = ["redirects_seen", "redirect_kind:slash", "redirect_kind:merge", "redirect_kind:defaults", "redirect_kind:alias", "followed_to_match",
                "hostlike_paths", "redirects_to_targets_that_need_quoting", "redirects_for_floats_written_with_an_exponent", "reach:MapAdapter.make_redirect_url", "reach:MapAdapter.get_default_redirect", "reach:MapAdapter.make_alias_redirect_url"]
ASSUMPTIONS = [
    "redirect_to targets supplied by the application are outside the claim and never generated",
    "the denotation of a path is the set of (endpoint, arguments) of rules admitting it exactly, with a trailing slash added/removed, or with slashes merged (rule defaults applied)",
]
TIERS = {"quick": dict(nshards=16, maps=800), "thorough": dict(nshards=64, maps=6000)}


def shards(tier, seed):
    n = TIERS[tier]["nshards"]
    return [{"kind": "maps", "index": i, "of": n} for i in range(n)]


def build(rules, strict, merge, redirect_defaults, sort_parameters=False, late=0, warm=None):
    from werkzeug.routing import Map, Rule

    rl = []
    for r in rules:
        kw = {}
        if r.get("strict") is not None:
            kw["strict_slashes"] = r["strict"]
        if r.get("merge") is not None:
            kw["merge_slashes"] = r["merge"]
        if r.get("defaults"):
            kw["defaults"] = dict(r["defaults"])
        if r.get("alias"):
            kw["alias"] = True
        if getattr(build, "subdomain", None):
            kw["subdomain"] = build.subdomain  # the rules live on the subdomain the adapter is bound to (the map's default one is "")
        if r.get("ws"):
            kw["websocket"] = True
            rl.append(Rule(R.rule_str(r), endpoint=r["ep"], **kw))
        else:
            rl.append(Rule(R.rule_str(r), endpoint=r["ep"], methods=r["methods"], **kw))
    if late and len(rl) >= 2:
        # history: the map answers requests before its last rules are added
        m = Map(rl[:-late], strict_slashes=strict, merge_slashes=merge, redirect_defaults=redirect_defaults, sort_parameters=sort_parameters)
        if warm is not None:
            warm(m)
        for r_ in rl[-late:]:
            m.add(r_)
        return m
    return Map(rl, strict_slashes=strict, merge_slashes=merge, redirect_defaults=redirect_defaults, sort_parameters=sort_parameters)


def lenient_denotation(rules, p, method):
    out = set()
    variants = {p, p + "/", p.rstrip("/") or "/", R.merge(p), R.merge(p) + "/", R.merge(p).rstrip("/") or "/"}
    # runs of 3+ slashes: one merge step of werkzeug halves them; a path converter may legitimately keep the rest
    import re as _re

    wz = _re.sub("/{2,}?", "/", p)
    variants |= {wz, wz + "/", wz.rstrip("/") or "/"}
    for r in rules:
        if not R.ok_method(r, method):
            continue
        for v in variants:
            for st in (True, False):
                a = R.admits(r, v, st)
                if a and a[0] == "match":
                    args = dict(a[1])
                    args.update(r.get("defaults") or {})
                    out.add((r["ep"], tuple(sorted(args.items(), key=lambda kv: kv[0]))))
    return out


def hostile_paths(rng, paths):
    out = set(paths)
    base = list(paths)
    for p in base[:10]:
        out.add("//evil.com" + p)
        out.add("///evil.com" + p)
        out.add("/\\evil.com" + p)
        out.add("/" + p)
        out.add("//evil.com/%2f.." + p)
        # a first segment that looks like a URL scheme / authority must stay a path segment
        out.add("/http://evil.com" + p)
        out.add("/https:/evil.com" + p)
        out.add("/http:" + p)
        segs = p.split("/")
        if len(segs) > 1:
            out.add("/" + "/".join(["javascript:alert(1)"] + segs[2:]))
            out.add("/" + "/".join(["evil.com:80"] + segs[2:]))
        out.add(p.replace("/", "//"))
        out.add(p.replace("/", "///", 1))
        out.add(p + "é")
        # repeated slashes *inside* what a trailing path converter takes, with and without the final slash
        out.add(p.rstrip("/") + "//zz")
        out.add(p.rstrip("/") + "//zz/")
        out.add(p.rstrip("/") + "/http://x.example/y")
        out.add(p.rstrip("/") + "/%25/" if rng.random() < 0.3 else p + "?x#y")
    return sorted(out)


def check_map(rec, rng, rules, strict, merge, rd, script, scheme, sub):
    from werkzeug.exceptions import HTTPException
    from werkzeug.routing.exceptions import RequestRedirect

    sortp = rng.random() < 0.3
    build.subdomain = sub
    if sub:
        rec.observe("maps_on_a_subdomain")
    ws = scheme in ("ws", "wss")
    # the rules of the adapter's own kind (websocket rules for ws/wss, HTTP rules otherwise) plus, in a third of the maps,
    # some rules of the other kind: those can never answer this adapter, so nothing may redirect towards them
    mixed = rng.random() < 0.35
    other = {ep: mixed and rng.random() < 0.4 for ep in sorted({r["ep"] for r in rules})}  # per endpoint: an alias / defaults
    rules = [dict(r, ws=(ws != other[r["ep"]])) for r in rules]                               # rule is of its endpoint's kind
    rules = [dict(r, methods=None) if r["ws"] else r for r in rules]  # websocket rules carry no method sets
    all_rules = rules
    if mixed and any(r["ws"] != ws for r in rules):
        rec.observe("maps_mixing_http_and_websocket_rules")
    late = rng.randint(1, len(rules) - 1) if len(rules) >= 2 and rng.random() < 0.3 else 0
    if late:
        rules = list(rules)
        rng.shuffle(rules)  # which rules arrive late is arbitrary (a defaults rule, an alias, a canonical rule ...)
        all_rules = rules
        warm_paths = C3.gen_paths(rng, rules, 2)[:25]

        def warm(m_):
            a_ = m_.bind("h.com", script, subdomain=sub, url_scheme=scheme)
            for wp in warm_paths:
                for wm in ("GET", "POST"):
                    try:
                        a_.match(wp, method=wm)
                    except HTTPException:
                        pass
        rec.observe("maps_extended_after_first_use")
    else:
        warm = None
    try:
        m = build(rules, strict, merge, rd, sortp, late, warm)
    except Exception as e:
        rec.observe(f"map_build_error:{type(e).__name__}")
        return
    ad = m.bind("h.com", script, subdomain=sub, url_scheme=scheme)
    ref_ad = None
    if late:
        try:
            ref_ad = build(all_rules, strict, merge, rd, sortp).bind("h.com", script, subdomain=sub, url_scheme=scheme)
        except Exception:  # noqa: BLE001
            ref_ad = None
    host = f"{sub}.h.com" if sub else "h.com"
    paths = hostile_paths(rng, C3.gen_paths(rng, rules, 3))
    # paths that spell a default out (the case the defaults redirect exists for), the other variables drawn from the
    # whole pool - values with a literal per cent sign, a space, '?', '#', ';' have to survive the rebuilt URL
    spelled = set()
    for d in rules:
        if d.get("defaults") and not d.get("alias"):
            for r in rules:
                if r["ep"] == d["ep"] and not r.get("defaults") and not r["tail"]:
                    names = {s_[4] for s_ in r["segs"] if s_[0] == "var"}
                    if set(d["defaults"]) <= names:
                        for _ in range(8):
                            parts = [s_[1] if s_[0] == "lit" else s_[1] + (str(d["defaults"][s_[4]]) if s_[4] in d["defaults"] else rng.choice(s_[2][4][-7:] + s_[2][4])) + s_[3] for s_ in r["segs"]]
                            spelled.add("/" + "/".join(parts) + ("/" if r["branch"] else ""))
    if spelled:
        rec.observe("paths_spelling_out_a_default", len(spelled))
        paths = sorted(set(paths) | spelled)
    strs = [R.rule_str(r) for r in rules]
    rules = [r for r in all_rules if r["ws"] == ws]  # what the reference sees: rules that can answer this adapter
    sp = script.rstrip("/")
    spq = quote(sp, safe="/")  # the script root as it appears in a URL
    base_case = {"rules": strs, "rule_opts": [[r.get("strict"), r.get("merge"), r.get("defaults"), r.get("alias"), r["methods"], r["ws"]] for r in all_rules],
                 "strict": strict, "merge": merge, "redirect_defaults": rd, "script": script, "scheme": scheme, "subdomain": sub}
    for p in paths:
        qkind = rng.choice(["none", "str", "map"])
        q = {"none": None, "str": "a=1&b=%C3%A9&a=2", "map": {"k": "v w", "é": ["1", "2"]}}[qkind]
        rec.case()
        if p.startswith(("//", "/\\")):
            rec.observe("hostlike_paths")
        method = "GET" if ws else rng.choice(["GET", "GET", "GET", "POST", "HEAD", "DELETE"])
        rec.observe("method:" + method)
        # the query reaches the router either with the match() call or when the adapter is bound (bind_to_environ)
        bound = qkind != "none" and rng.random() < 0.35
        if bound:
            A, mkw = m.bind("h.com", script, subdomain=sub, url_scheme=scheme, query_args=q), {}
            rec.observe("query_given_at_bind_time")
        elif qkind in ("none", "str") and rng.random() < 0.25:
            # the adapter made from the request environ, as a WSGI application does it: scheme (websocket upgrade
            # included), host, subdomain, script root, path and query all come from there
            env_ = {"REQUEST_METHOD": method, "wsgi.url_scheme": {"ws": "http", "wss": "https"}.get(scheme, scheme), "SERVER_NAME": "srv.internal", "SERVER_PORT": "8000",
                    "HTTP_HOST": f"{sub}.h.com" if sub else "h.com", "SCRIPT_NAME": script.rstrip("/").encode("utf-8").decode("latin-1"), "PATH_INFO": (p if p.startswith("/") else "/" + p).encode("utf-8").decode("latin-1"),
                    "QUERY_STRING": q or ""}
            if ws:
                env_["HTTP_CONNECTION"], env_["HTTP_UPGRADE"] = "keep-alive, Upgrade", "WebSocket"
            A, mkw = m.bind_to_environ(env_, server_name="h.com"), {}
            bound = True
            rec.observe("adapters_bound_to_an_environ")
        else:
            A, mkw = ad, {"query_args": q}
        case = dict(base_case, path=p, query=qkind, method=method, query_bound_to_adapter=bound)
        if ref_ad is not None and not bound:
            # a map extended after its first use answers like one that had all the rules from the start
            def _o(a_):
                try:
                    ep_, ar_ = a_.match(p, method=method, query_args=q)
                    return ("match", ep_, tuple(sorted(ar_.items(), key=lambda kv: kv[0])))
                except RequestRedirect as e_:
                    return ("redirect", e_.new_url)
                except HTTPException as e_:
                    return (type(e_).__name__,)
                except Exception as e_:  # noqa: BLE001
                    return ("EXC", type(e_).__name__)
            g_, x_ = _o(ad), _o(ref_ad)
            if g_ != x_:
                rec.violation("C12/map-extended-after-use-answers-differently", f"{p!r} {method}: {g_!r}, a map built at once answers {x_!r}; {case}", case, monitor="history")
                continue
        try:
            A.match(p, method=method, **mkw)
            rec.observe("no_redirect")
            continue
        except RequestRedirect as e:
            url = e.new_url
        except HTTPException:
            rec.observe("not_matched")
            continue
        except Exception as e:
            rec.violation(f"C12/unexpected-exception:{type(e).__name__}", f"{e!r}; {case}", case, monitor="boundary")
            continue
        rec.observe("redirects_seen")
        rec.nontrivial(hash((tuple(strs), strict, merge, rd, script, scheme, sub, p, qkind, method)) & 0xFFFFFFFFFFFFFFFF)
        u = urlsplit(url)
        if u.scheme != scheme or u.netloc != host:
            rec.violation("C12/redirect-off-bound-host", f"{url!r} (bound {scheme}://{host}); {case}", case, monitor="redirect-target")
            continue
        if not unquote(u.path).startswith(sp + "/"):  # (the script root may be spelled as in an IRI or percent-encoded)
            rec.violation("C12/redirect-outside-script-root", f"{url!r} script {script!r}; {case}", case, monitor="redirect-target")
            continue
        if not url.isascii() and sp.isascii():
            rec.violation("C12/redirect-url-not-ascii", f"{url!r}; {case}", case, monitor="redirect-target")
            continue
        if qkind == "str" and u.query != q:
            rec.violation("C12/query-string-altered", f"{url!r} query {q!r}; {case}", case, monitor="query")
            continue
        got_q = parse_qsl(u.query, keep_blank_values=True)
        exp_q = [("k", "v w"), ("é", "1"), ("é", "2")]
        if qkind == "map" and (sorted(got_q) != sorted(exp_q) or [v for k, v in got_q if k == "é"] != ["1", "2"] or (not sortp and got_q != exp_q)):
            rec.violation("C12/query-mapping-altered", f"{url!r}; {case}", case, monitor="query")
            continue
        if qkind == "none" and u.query:
            rec.violation("C12/query-invented", f"{url!r}; {case}", case, monitor="query")
            continue
        # classify the kind of this redirect (for the evidence)
        pp = "/" + p.lstrip("/")
        tgt = unquote(u.path)[len(sp):]
        if tgt == pp + "/":
            kind = "slash"
        elif "//" in pp and R.merge(pp) in (tgt, tgt.rstrip("/")):
            kind = "merge"
        elif any(r.get("alias") for r in rules) and tgt.rstrip("/") != pp.rstrip("/"):
            kind = "alias" if not any(r.get("defaults") for r in rules) else "defaults"
        elif any(r.get("defaults") for r in rules):
            kind = "defaults"
        else:
            kind = "other"
        rec.observe("redirect_kind:" + kind)
        # follow
        seen, cur, hops, final = {url}, url, 0, None
        bad = None
        first_target = unquote(u.path)[len(sp):]
        hop_kinds = ["slash" if first_target == pp + "/" else "merge" if R.merge(pp).rstrip("/") == R.merge(first_target).rstrip("/") else "canonical"]
        while hops < 8:
            path = unquote(urlsplit(cur).path)[len(sp):]
            try:
                final = A.match(path, method=method, **mkw)
                break
            except RequestRedirect as e2:
                hops += 1
                nxt_path = unquote(urlsplit(e2.new_url).path)[len(sp):]
                hk = "slash" if nxt_path == path + "/" else "merge" if R.merge(path).rstrip("/") == R.merge(nxt_path).rstrip("/") else "canonical"
                eps_here = {r["ep"] for r in rules if R.ok_method(r, method) and any((a_ := R.admits(r, path, st_)) and a_[0] == "match" for st_ in (True, False))}
                if hk == "canonical" and hop_kinds and hop_kinds[-1] == "canonical" and len(eps_here) > 1:
                    rec.observe("ambiguous_target_tolerated")  # the intermediate URL belongs to several endpoints: which one answers is C03's subject
                elif hk == "canonical" and hop_kinds and hop_kinds[-1] == "canonical":
                    bad = ("C12/redirect-target-needs-a-redirect-of-the-same-kind", f"{url!r} -> {cur!r} -> {e2.new_url!r}: two defaults/alias canonicalisations in a row")
                    break
                hop_kinds.append(hk)
                cur = e2.new_url
                u2 = urlsplit(cur)
                if u2.scheme != scheme or u2.netloc != host:
                    bad = ("C12/redirect-off-bound-host", f"hop {hops}: {cur!r}")
                    break
                if cur in seen:
                    bad = ("C12/redirect-loop", f"{url!r} -> ... -> {cur!r}")
                    # one mechanism is a recorded finding: an alias rule answers this method, no canonical (non-alias) rule of
                    # its endpoint does, and the alias "redirects" to its own URL (the key is given only where exactly that holds)
                    al_ = [r for r in rules if r.get("alias") and R.ok_method(r, method) and any((a_ := R.admits(r, path, st_)) and a_[0] == "match" for st_ in (True, False))]
                    if nxt_path == path and any(all(not R.ok_method(r, method) for r in rules if r["ep"] == a["ep"] and not r.get("alias")) for a in al_):
                        bad = ("C12/alias-redirects-to-itself-for-a-method-no-canonical-rule-answers", f"{method} {path!r}: the alias rule admits the method, no canonical rule of its endpoint does; redirected to {cur!r}, i.e. to itself")
                    break
                seen.add(cur)
            except HTTPException as e3:
                bad = (f"C12/redirect-target-{type(e3).__name__}", f"{url!r} -> {cur!r} answers {type(e3).__name__}")
                break
        rec.observe(f"hops:{hops}")
        if bad:
            rec.violation(bad[0], f"{bad[1]}; {case}", case, monitor="follow")
            continue
        if final is None:
            rec.violation("C12/redirects-do-not-converge", f"{url!r}: still redirecting after {hops} hops; {case}", case, monitor="follow")
            continue
        if hops >= 3:
            # merge, slash, defaults and alias canonicalisation can follow each other (one of each kind); the property
            # bounds repetition of a kind and demands termination, not a chain length
            rec.observe("redirect_chains_of_four_or_more")
        rec.observe("followed_to_match")
        den = lenient_denotation(rules, pp, method)
        got = (final[0], tuple(sorted(final[1].items(), key=lambda kv: kv[0])))
        # what the path denotes *as given* (only a trailing slash may be missing): repeated slashes that are part of
        # a value (a path converter, a rule that keeps them) are part of what is requested
        den_exact = set()
        for r_ in rules:
            if R.ok_method(r_, method):
                for v_ in (pp, pp + "/"):
                    for st_ in (True, False):
                        a_ = R.admits(r_, v_, st_)
                        if a_ and a_[0] == "match":
                            args_ = dict(a_[1])
                            args_.update(r_.get("defaults") or {})
                            den_exact.add((r_["ep"], tuple(sorted(args_.items(), key=lambda kv: kv[0]))))
        if den_exact and got not in den_exact and got in den and not pp.endswith("//") and "///" not in pp and not pp.startswith("//"):
            rec.violation("C12/redirect-changes-what-is-requested", f"{p!r} -> {url!r} finally matches {got!r}; as given (plus a trailing slash) the path denotes {sorted(den_exact)!r}", case, monitor="denotation")
            continue
        if got not in den:
            # the map itself may be ambiguous at the target (two rules admit the canonical URL): which of them wins is
            # C03's subject; the redirect is wrong only if no rule admitting the target carries the original denotation
            at_target = set()
            for hop_url in seen:
                tpath = unquote(urlsplit(hop_url).path)[len(sp):]
                for r in rules:
                    if R.ok_method(r, method):
                        for stt in (True, False):
                            a = R.admits(r, tpath, stt)
                            if a and a[0] == "match":
                                args = dict(a[1])
                                args.update(r.get("defaults") or {})
                                at_target.add((r["ep"], tuple(sorted(args.items(), key=lambda kv: kv[0]))))
            if at_target & den:
                rec.observe("ambiguous_target_tolerated")
                continue
            rec.violation("C12/redirect-changes-what-is-requested", f"{p!r} -> {url!r} finally matches {got!r}, path denotes {sorted(den)!r}; {case}", case, monitor="denotation")
        if len(rec.samples) < 5:
            rec.sample({"rules": strs, "path": p, "redirect": url, "hops": hops + 1, "final": [final[0], {k: str(v) for k, v in final[1].items()}]})


def gen_rules(rng):
    n = rng.choice((1, 2, 2, 3, 3, 4, 5))
    rules = [C3.gen_rule(rng, 0)]
    for k in range(1, n):
        rules.append(C3.related_rule(rng, rng.choice(rules), k) if rng.random() < 0.6 else C3.gen_rule(rng, k))
    for r in rules:
        r["strict"] = rng.choice([None, None, True, False])
        r["merge"] = rng.choice([None, None, True, False])
        if rng.random() < 0.12:
            # literal text that the routing code itself uses as a separator internally (domain|path)
            r["segs"] = list(r["segs"])
            r["segs"].insert(rng.randint(0, len(r["segs"])), ("lit", rng.choice(["|", "|", "a|b", "|x"])))
            if not r["segs"][1:] and not r["tail"]:
                r["branch"] = rng.random() < 0.4
    extra = []
    for r in list(rules):
        # defaults pair: same endpoint, shorter rule providing a default for the last int/string variable
        if r["segs"] and r["segs"][-1][0] == "var" and r["segs"][-1][1] == r["segs"][-1][3] == "" and r["segs"][-1][2][0] in ("int", "string") and not r["tail"] and rng.random() < 0.5:
            last = r["segs"][-1]
            dv = 1 if last[2][0] == "int" else "zz"
            base = dict(r, segs=list(r["segs"][:-1]), defaults={last[4]: dv}, branch=True if not r["segs"][:-1] else r["branch"])
            if rng.random() < 0.4:
                # the rule providing the defaults answers fewer / other methods than the rule it shortens
                base["methods"] = rng.choice([["GET"], ["POST"], None])
            extra.append(base)
            segs_ = r["segs"]
            if len(segs_) >= 2 and segs_[-2][0] == "var" and segs_[-2][1] == segs_[-2][3] == "" and segs_[-2][2][0] in ("int", "string") and rng.random() < 0.6:
                # a second level: a still shorter rule providing defaults for the last two variables
                # (/blog/<year>/<page>, /blog/<year>/ and /blog/): the canonical URL is reached in one redirect
                prev = segs_[-2]
                dvp = 2024 if prev[2][0] == "int" else "yy"
                extra.append(dict(r, segs=list(segs_[:-2]), defaults={prev[4]: dvp, last[4]: dv}, branch=True if not segs_[:-2] else r["branch"]))
            if rng.random() < 0.5:
                # an alias whose *defaults* select the canonical URL: /old<k>.html -> build(endpoint, var=value)
                dv2 = 7 if last[2][0] == "int" else "ab"
                extra.append(dict(r, segs=[("lit", f"old{len(extra)}.html")], tail=None, branch=False, defaults={last[4]: dv2}, alias=True,
                                  only_if_single_var=sum(1 for s_ in r["segs"] if s_[0] == "var") == 1))
        elif rng.random() < 0.25 and not any(s[0] == "var" for s in r["segs"]) and not r["tail"]:
            # alias: another literal path for the same endpoint
            al = dict(r, segs=[("lit", "old")] + list(r["segs"]), alias=True)
            if rng.random() < 0.3:
                # the alias answers other / more methods than the rule it stands for
                al["methods"] = rng.choice([None, ["GET"], ["POST"], ["GET", "POST"]])
            extra.append(al)
    extra = [e for e in extra if e.get("only_if_single_var", True)]
    return rules + extra


def late_rule_histories(rec, rng, n):
    """History: a map that has already answered requests gets further rules of the same endpoint (Map.add): from
    then on it redirects exactly like a map that had all the rules from the start - in particular straight to the
    canonical URL, not through an intermediate one."""
    build.subdomain = None
    from werkzeug.exceptions import HTTPException
    from werkzeug.routing import Map, Rule
    from werkzeug.routing.exceptions import RequestRedirect

    def outcome(ad, p, method="GET"):
        try:
            ep, args = ad.match(p, method=method)
            return ("match", ep, tuple(sorted(args.items())))
        except RequestRedirect as e:
            return ("redirect", e.new_url)
        except HTTPException as e:
            return (type(e).__name__,)

    for _ in range(n):
        a = rng.choice(["blog", "x1", "ab", "é"])
        dy, dp = rng.choice([2024, 7]), rng.choice([1, 3])
        specs = [(f"/{a}/<int:y>/<int:p>", None), (f"/{a}/<int:y>/", {"p": dp}), (f"/{a}/", {"y": dy, "p": dp}), (f"/old-{a}", {"y": dy, "p": 9}), ("/other/<string:s>", None)]
        flags = [{}, {}, {}, {"alias": True}, {}]
        eps = ["e", "e", "e", "e", "o"]
        order = list(range(len(specs)))
        rng.shuffle(order)
        k = rng.randint(1, len(order) - 1)

        def mk(i):
            return Rule(specs[i][0], endpoint=eps[i], defaults=specs[i][1], **flags[i])

        script, scheme = rng.choice(["/", "/app"]), rng.choice(["http", "https"])
        m = Map([mk(i) for i in order[:k]])
        ad = m.bind("h.com", script, url_scheme=scheme)
        paths = [f"/{a}/{dy}/{dp}", f"/{a}/2023/7", f"/{a}/2023/{dp}", f"/{a}/{dy}/", f"/{a}/2023/", f"/{a}/", f"/old-{a}", f"/{a}/{dy}/{dp}/", "/other/q", "/nope"]
        for p in rng.sample(paths, rng.randint(1, 6)):
            outcome(ad, p)  # the map is in use
        for i in order[k:]:
            m.add(mk(i))
        ref = Map([mk(i) for i in order]).bind("h.com", script, url_scheme=scheme)
        rec.case()
        rec.observe("late_rule_histories")
        rec.nontrivial(("late", a, tuple(order), k, script, scheme))
        for p in paths:
            got, exp = outcome(ad, p), outcome(ref, p)
            if got != exp:
                rec.violation("C12/map-extended-after-use-answers-differently", f"{p!r}: {got!r}, a map that had all rules from the start answers {exp!r}; rules added in order {[specs[i][0] for i in order]}, first {k} before the first request",
                              {"rules": [specs[i][0] for i in order], "first": k, "path": p}, monitor="history")
                break


def fresh_maps_and_second_bindings(rec, rng):
    """Two histories of a map.  (a) A map that starts empty and is filled with add(); one of the factories hands out some
    rules and then fails (an unknown converter in its last rule), the application logs that and carries on.  The map has
    never been used, so it answers like a map built from the rules that did arrive.  (b) One map bound several times - two
    listeners on one host name with different ports, a forwarded port, with and without a port: every adapter's redirects
    name the host *it* was bound to."""
    from werkzeug.exceptions import HTTPException
    from werkzeug.routing import Map, Rule, Submount
    from werkzeug.routing.exceptions import RequestRedirect

    def outcome(ad, p, method="GET"):
        try:
            ep, args = ad.match(p, method=method)
            return ("match", ep, tuple(sorted(args.items())))
        except RequestRedirect as e:
            return ("redirect", e.new_url)
        except HTTPException as e:
            return (type(e).__name__,)

    # (a)
    for variant in range(6):
        good = [lambda: Rule("/old/<int:id>", endpoint="item", alias=True), lambda: Rule("/item/<int:id>", endpoint="item"), lambda: Rule("/<int:id>", endpoint="item_short", defaults=None),
                lambda: Rule("/<name>/", endpoint="profile"), lambda: Rule("/list/<int:page>", endpoint="list"), lambda: Rule("/list/", endpoint="list", defaults={"page": 1})]
        order = list(range(len(good)))
        if variant % 2 or variant == 4:
            rng.shuffle(order)
        m = Map()
        arrived = []
        ahead = 0 if variant < 2 else (3 if variant < 5 else 1)  # with 0 the failing factory is the only thing the map was ever given
        in_use = variant in (3, 4, 5)  # ... or the map has already answered requests when the failing factory comes
        for i in order[:ahead]:
            m.add(good[i]())
            arrived.append(i)
        if in_use:
            outcome(m.bind("example.com", "/"), "/warm/up")
            rec.observe("maps_in_use_with_a_failed_add")
        try:
            m.add(Submount("", [good[i]() for i in order[ahead:]] + [Rule("/x/<nosuchconverter:y>", endpoint="x")]))
            rec.observe("faulty_factory_did_not_fail")
        except LookupError:
            arrived += order[ahead:]
        ref = Map([good[i]() for i in arrived]).bind("example.com", "/")
        ad = m.bind("example.com", "/")
        rec.case()
        rec.nontrivial(("fresh-map-failed-add", tuple(order)))
        rec.observe("fresh_maps_with_a_failed_add")
        for p_ in ("/old/5", "/item/5", "/5", "/5/", "/bob", "/bob/", "/list/1", "/list/", "/list/3", "/nope/x"):
            got, exp = outcome(ad, p_), outcome(ref, p_)
            if got != exp:
                rec.violation("C12/map-filled-with-add-answers-differently", f"{p_!r}: {got!r}; a map built from the same rules answers {exp!r} (rules arrived in the order {arrived}, the last add failed half-way)",
                              {"family": "fresh-map-failed-add", "order": order, "path": p_}, monitor="history")
                return
    # (b)
    for names in (["example.com:443", "example.com:8443", "example.com"], ["example.com", "example.com:8080"], ["b\u00fccher.example:8443", "b\u00fccher.example", "b\u00fccher.example:444"],
                  ["EXAMPLE.com:81", "example.COM:82"]):
        m = Map([Rule("/dir/", endpoint="dir"), Rule("/list/", endpoint="list", defaults={"page": 1}), Rule("/list/<int:page>", endpoint="list"), Rule("/old", endpoint="dir", alias=True)])
        for nm_ in names * 2:
            scheme = rng.choice(["http", "https"])
            for via in ("bind", "environ"):
                if via == "bind":
                    ad = m.bind(nm_, "/app", url_scheme=scheme)
                else:
                    host_, _, port_ = nm_.partition(":")
                    env_ = {"REQUEST_METHOD": "GET", "wsgi.url_scheme": scheme, "SERVER_NAME": "srv.internal", "SERVER_PORT": port_ or ("443" if scheme == "https" else "80"),
                            "HTTP_HOST": nm_.encode("idna").decode() if not nm_.isascii() and ":" not in nm_ else (host_.encode("idna").decode() + (":" + port_ if port_ else "")),
                            "SCRIPT_NAME": "/app", "PATH_INFO": "/", "QUERY_STRING": ""}
                    ad = m.bind_to_environ(env_)
                want_host = ad.server_name
                host_, _, port_ = nm_.partition(":")
                exp_host = host_.lower().encode("idna").decode() + (":" + port_ if port_ and not ((scheme, port_) in (("http", "80"), ("https", "443")) and via == "environ") else "")
                rec.case()
                rec.nontrivial(("second-binding", nm_, via, scheme))
                rec.observe("adapters_of_a_map_bound_several_times")
                if want_host != exp_host:
                    rec.violation("C12/redirect-host-of-another-binding", f"{via}({nm_!r}, {scheme}) on a map that was bound to {names} before: the adapter's server name is {want_host!r}, expected {exp_host!r}",
                                  {"family": "second-binding", "names": names, "bound": nm_, "via": via}, monitor="host")
                    return
                for p_ in ("/dir", "/list/1", "/old", "//dir/"):
                    o_ = outcome(ad, p_)
                    if o_[0] == "redirect" and not o_[1].startswith(f"{scheme}://{exp_host}/app/"):
                        rec.violation("C12/redirect-host-of-another-binding", f"{via}({nm_!r}, {scheme}) on a map that was bound to {names} before: {p_!r} is redirected to {o_[1]!r}",
                                      {"family": "second-binding", "names": names, "bound": nm_, "via": via, "path": p_}, monitor="host")
                        return


def endpoint_families(rec, rng):
    """Configurations of one endpoint that the generated maps do not have: the same URL registered for HTTP and for
    WebSocket (both with defaults), and an endpoint whose rules carry argument sets that contain one another
    (/archive/ with a default page, /archive/<page>, /archive/all/ without any).  Every request is answered as the
    rule it names says: a match, or one redirect to a URL that denotes the same endpoint and arguments."""
    from urllib.parse import unquote, urlsplit

    from werkzeug.exceptions import HTTPException
    from werkzeug.routing import Map, Rule
    from werkzeug.routing.exceptions import RequestRedirect

    def follow(m, scheme, path, method="GET"):
        trail = []
        cur = path
        for _ in range(4):
            try:
                ep, args = m.bind("example.com", "/", url_scheme=scheme).match(cur, method=method)
                return ("match", ep, tuple(sorted(args.items()))), trail
            except RequestRedirect as e:
                trail.append(e.new_url)
                cur = unquote(urlsplit(e.new_url).path)
                if len(trail) > 1 and trail[-1] == trail[-2] or cur == path:
                    return ("loop",), trail
            except HTTPException as e:
                return (type(e).__name__,), trail
        return ("loop",), trail

    # (a) HTTP / WebSocket twins
    for order in ("ws-first", "http-first"):
        for with_slash in (False, True):
            url = "/feed/" if with_slash else "/feed"
            twins = [Rule(url, endpoint="feed", defaults={"page": 1}, websocket=True), Rule(url, endpoint="feed", defaults={"page": 1})]
            if order == "http-first":
                twins.reverse()
            m = Map(twins + [Rule("/feed/<int:page>", endpoint="feed"), Rule("/feed/<int:page>", endpoint="feed", websocket=True)])
            for scheme in ("http", "ws", "https", "wss"):
                for path, want in ((url, ("match", "feed", (("page", 1),))), ("/feed/3", ("match", "feed", (("page", 3),))), ("/feed/1", ("match", "feed", (("page", 1),)))):
                    got, trail = follow(m, scheme, path)
                    rec.case()
                    rec.nontrivial(("twins", order, with_slash, scheme, path))
                    rec.observe("http_websocket_twin_requests")
                    if got != want or len(trail) > 1:
                        key = "C12/redirect-chain-does-not-terminate" if got == ("loop",) else "C12/redirect-changes-endpoint-or-arguments"
                        rec.violation(key, f"one URL registered for HTTP and WebSocket ({order}), {scheme} request for {path!r}: {got!r} via {trail!r}, expected {want!r} after at most one redirect",
                                      {"family": "twins", "order": order, "scheme": scheme, "path": path}, monitor="follow")
                        return
    # (a2) the caller edits what match() handed out (an URL-value preprocessor adding / popping a value); later requests are
    # redirected as if nobody had
    for edit in ("add", "pop", "clear", "overwrite"):
        m2 = Map([Rule("/", endpoint="index", defaults={"page": 1}), Rule("/page/<int:page>", endpoint="index"), Rule("/about", endpoint="about", defaults={"lang": "en"}),
                  Rule("/about/<lang>", endpoint="about")])
        ad2 = m2.bind("example.com", "/", query_args="x=1")
        before = {}
        for p_ in ("/page/1", "/about/en", "/page/2", "/"):
            try:
                before[p_] = ("match",) + ad2.match(p_)
            except RequestRedirect as e:
                before[p_] = ("redirect", e.new_url)
        for p_ in ("/", "/about"):
            ep_, args_ = ad2.match(p_)
            if edit == "add":
                args_["theme"] = "light"
            elif edit == "pop":
                args_.popitem()
            elif edit == "clear":
                args_.clear()
            else:
                for k_ in list(args_):
                    args_[k_] = "edited"
        after = {}
        for p_ in ("/page/1", "/about/en", "/page/2", "/"):
            try:
                after[p_] = ("match",) + ad2.match(p_)
            except RequestRedirect as e:
                after[p_] = ("redirect", e.new_url)
        rec.case()
        rec.nontrivial(("caller-edits", edit))
        rec.observe("redirects_after_a_caller_edited_a_match_result")
        if after != before or before["/page/1"] != ("redirect", "http://example.com/?x=1"):
            rec.violation("C12/redirect-depends-on-what-an-earlier-caller-did-with-its-result", f"a caller did {edit!r} to the arguments match() returned; before: {before!r}; afterwards: {after!r}",
                          {"family": "caller-edits", "edit": edit}, monitor="follow")
            return
    # (b) argument sets that contain one another
    m = Map([Rule("/archive/", endpoint="archive", defaults={"page": 1}), Rule("/archive/<int:page>", endpoint="archive"), Rule("/archive/all/", endpoint="archive"),
             Rule("/tag/<name>/", endpoint="tag", defaults={"page": 1}), Rule("/tag/<name>/<int:page>", endpoint="tag"), Rule("/tag/<name>/feed", endpoint="tag"),
             Rule("/u/<name>/", endpoint="user", defaults={"tab": "home", "page": 1}), Rule("/u/<name>/<tab>/", endpoint="user", defaults={"page": 1}), Rule("/u/<name>/<tab>/<int:page>", endpoint="user")])
    for path, want in (("/archive/all/", ("archive", ())), ("/archive/all", ("archive", ())), ("/archive//all/", ("archive", ())), ("/archive/", ("archive", (("page", 1),))), ("/archive/1", ("archive", (("page", 1),))),
                       ("/archive/2", ("archive", (("page", 2),))), ("/tag/python/feed", ("tag", (("name", "python"),))), ("/tag/python/", ("tag", (("name", "python"), ("page", 1)))),
                       ("/tag/python/1", ("tag", (("name", "python"), ("page", 1)))), ("/u/bob/", ("user", (("name", "bob"), ("page", 1), ("tab", "home")))),
                       ("/u/bob/home/", ("user", (("name", "bob"), ("page", 1), ("tab", "home")))), ("/u/bob/posts/", ("user", (("name", "bob"), ("page", 1), ("tab", "posts")))),
                       ("/u/bob/home/1", ("user", (("name", "bob"), ("page", 1), ("tab", "home")))), ("/u/bob/posts/2", ("user", (("name", "bob"), ("page", 2), ("tab", "posts"))))):
        got, trail = follow(m, "http", path)
        rec.case()
        rec.nontrivial(("nested-argument-sets", path))
        rec.observe("requests_on_endpoints_with_nested_argument_sets")
        if got != ("match",) + want or len(trail) > 2:
            key = "C12/redirect-chain-does-not-terminate" if got == ("loop",) else "C12/redirect-changes-endpoint-or-arguments"
            rec.violation(key, f"{path!r} denotes {want!r}; following the router gives {got!r} via {trail!r}", {"family": "nested-argument-sets", "path": path}, monitor="follow")
            return

    # (c) redirect targets whose variable part needs quoting in a URL (an item of an any(...) converter with a blank, a
    # non-ASCII letter or a percent sign; text values with the same; numbers padded to a fixed width)
    m = Map([Rule('/city/<any("new york", "são paulo", "50%", oslo):c>/', endpoint="city"), Rule('/c/<any("new york", "são paulo", "50%", oslo):c>', endpoint="city", alias=True),
             Rule("/town/", endpoint="town", defaults={"c": "new york"}), Rule('/town/<any("new york", "são paulo", "50%", oslo):c>/', endpoint="town"),
             Rule("/n/<name>/", endpoint="named"), Rule("/name/<name>", endpoint="named", alias=True),
             Rule("/item/<int(fixed_digits=4):n>", endpoint="item"), Rule("/i/<int:n>", endpoint="item", alias=True),
             Rule("/doc/", endpoint="doc", defaults={"n": 7}), Rule("/doc/<int(fixed_digits=3):n>/", endpoint="doc")])
    for city in ("new york", "são paulo", "50%", "oslo"):
        for path, want in ((f"/c/{city}", ("city", (("c", city),))), (f"/city/{city}", ("city", (("c", city),))), (f"/town/{city}/", ("town", (("c", city),))),
                           (f"/name/{city}", ("named", (("name", city),))), (f"/n/{city}", ("named", (("name", city),)))):
            try:
                got, trail = follow(m, "http", path)
            except Exception as e:  # noqa: BLE001 (whatever escapes from match() instead of a redirect)
                got, trail = ("escaped", type(e).__name__, str(e)[:60]), []
            rec.case()
            rec.nontrivial(("quoted-redirect-targets", path))
            rec.observe("redirects_to_targets_that_need_quoting")
            if got != ("match",) + want or len(trail) > 2 or not all(u.isascii() and " " not in u for u in trail):
                key = "C12/redirect-chain-does-not-terminate" if got == ("loop",) else "C12/redirect-not-issued-for-a-value-that-needs-quoting" if got[0] == "escaped" else "C12/redirect-changes-endpoint-or-arguments"
                rec.violation(key, f"{path!r} denotes {want!r}; following the router gives {got!r} via {trail!r}", {"family": "quoted-redirect-targets", "path": path}, monitor="follow")
                return
    for path, want in (("/i/42", ("item", (("n", 42),))), ("/i/0", ("item", (("n", 0),))), ("/item/0042", ("item", (("n", 42),))), ("/doc/007/", ("doc", (("n", 7),))), ("/doc/012", ("doc", (("n", 12),)))):
        got, trail = follow(m, "http", path)
        rec.case()
        rec.nontrivial(("padded-redirect-targets", path))
        rec.observe("redirects_to_targets_that_need_quoting")
        if got != ("match",) + want or len(trail) > 2:
            rec.violation("C12/redirect-target-NotFound" if got == ("NotFound",) else "C12/redirect-changes-endpoint-or-arguments", f"{path!r} denotes {want!r}; following the router gives {got!r} via {trail!r}",
                          {"family": "padded-redirect-targets", "path": path}, monitor="follow")
            return

    # (d) numbers that str() writes with an exponent (17 and more digits, many leading zeros) and digit runs no float holds:
    # the redirect target is written positionally and matches; where the value has no URL the request is not redirected
    m = Map([Rule("/f/<float:v>", endpoint="fl", alias=True), Rule("/g/<float:v>", endpoint="fl"), Rule("/m/<float:v>/", endpoint="m", defaults={"u": "m"}), Rule("/m/<float:v>/<u>/", endpoint="m"),
             Rule("/s/<float(signed=True):v>", endpoint="sg", alias=True), Rule("/sg/<float(signed=True):v>/", endpoint="sg")])
    for txt in ("10000000000000000.0", "0.00001", "1.5", "123456789012345678901.5", "0.000000000000000000001234", "99999999999999999999.99999", "00012.500", "9" * 400 + ".0", "1" * 309 + ".5"):
        val = float(txt)
        for path, ep in ((f"/f/{txt}", "fl"), (f"/m/{txt}/m/", "m"), (f"/m/{txt}/m", "m"), (f"/s/-{txt}", "sg"), (f"/sg/{txt}", "sg")):
            v_ = -val if path.startswith("/s/") else val
            want = ("match", ep, tuple(sorted({"v": v_, **({"u": "m"} if ep == "m" else {})}.items())))
            got, trail = follow(m, "http", path)
            rec.case()
            rec.nontrivial(("exponent-floats", path[:40]))
            rec.observe("redirects_for_floats_written_with_an_exponent")
            ok = (got == ("NotFound",) and not trail) if val == float("inf") else (got == want and len(trail) <= 2)
            if not ok:
                key = "C12/redirect-target-NotFound" if got == ("NotFound",) and trail else "C12/redirect-chain-does-not-terminate" if got == ("loop",) else "C12/redirect-changes-endpoint-or-arguments"
                rec.violation(key, f"{path[:60]!r} ({len(path)} characters) denotes {want!r}; following the router gives {got!r} via {[t[:60] for t in trail]!r}",
                              {"family": "exponent-floats", "path": path}, monitor="follow")
                return


def concurrent_first_use(rec, rng, n):
    """Two threads hit a fresh map at once (yields injected inside Map.update): an alias registered before its
    canonical rule must still redirect to the canonical URL, never to itself."""
    import sys
    import threading
    import time

    from werkzeug.routing import Map, Rule
    from werkzeug.routing import map as MP
    from werkzeug.routing.exceptions import RequestRedirect

    mon = sys.monitoring
    TOOL = 5
    try:
        mon.use_tool_id(TOOL, "verif-yield-c12")
    except ValueError:
        return
    jitter = [None]

    def on_line(code, line):
        # uniform delays keep threads that started together in lock-step; the last phase wants them out of step
        time.sleep(0.0005 if jitter[0] is None else jitter[0].choice((0, 0, 0.0002, 0.0005, 0.002)))

    mon.register_callback(TOOL, mon.events.LINE, on_line)
    from werkzeug.routing import matcher as _MM

    codes = [MP.Map.update.__code__]
    try:
        codes.append(_MM.StateMachineMatcher.update.__code__)
    except AttributeError:
        pass
    for c_ in list(codes):
        codes += [k for k in c_.co_consts if hasattr(k, "co_code")]  # nested helpers are code objects of their own
    for c_ in codes:
        mon.set_local_events(TOOL, c_, mon.events.LINE)
    try:
        for _ in range(n):
            rules = [Rule("/index.html", endpoint="index", alias=True), Rule("/", endpoint="index"), Rule("/old/<int:p>", endpoint="page", alias=True),
                     Rule("/page/<int:p>/", endpoint="page"), Rule("/x", endpoint="x")]
            if rng.random() < 0.5:
                rules[2], rules[3] = rules[3], rules[2]
            ad = Map(rules).bind("h.com", "/app", url_scheme="https")
            results = {}
            barrier = threading.Barrier(2)
            stagger = rng.choice([0.0, 0.001, 0.002, 0.003, 0.004])

            def worker(i):
                out = []
                barrier.wait()
                if i:
                    time.sleep(stagger)  # arrive while the other thread is inside Map.update
                for p in (["/index.html", "/old/7"] if i == 0 else ["/old/7", "/index.html"]):
                    try:
                        ad.match(p)
                        out.append((p, "matched"))
                    except RequestRedirect as e:
                        out.append((p, e.new_url))
                    except Exception as e:  # noqa: BLE001
                        out.append((p, type(e).__name__))
                results[i] = out

            ts = [threading.Thread(target=worker, args=(i,)) for i in range(2)]
            for t in ts:
                t.start()
            for t in ts:
                t.join(30)
            rec.case()
            rec.observe("concurrent_first_use_maps")
            exp = {"/index.html": "https://h.com/app/", "/old/7": "https://h.com/app/page/7/"}
            for i, out in results.items():
                for p, got in out:
                    if got != exp[p]:
                        rec.violation("C12/concurrent-first-use-alias-redirect", f"thread {i}: match({p!r}) -> {got!r}, expected redirect to {exp[p]!r}", {"path": p, "rules": [r.rule for r in rules]}, monitor="schedule-stress")
        # ---- steady state: requests of different methods and kinds overlap on one sorted map; whether a request is
        # redirected depends on its own method / kind only.  Yields inside the matcher's match() and its helpers.
        import sys as _sys

        from werkzeug.exceptions import HTTPException

        for c_ in codes:
            mon.set_local_events(TOOL, c_, 0)
        mcodes = [f.__code__ for f in vars(_MM.StateMachineMatcher).values() if hasattr(f, "__code__") and f.__name__ not in ("__init__", "add", "update")]
        for c_ in list(mcodes):
            mcodes += [k for k in c_.co_consts if hasattr(k, "co_code")]
        for c_ in mcodes:
            mon.set_local_events(TOOL, c_, mon.events.LINE)
        codes += mcodes
        m2 = Map([Rule("/items/<int:id>/", endpoint="item", methods=["GET"]), Rule("/chat/<int:id>/", endpoint="chat", websocket=True),
                  Rule("/list/", endpoint="list", defaults={"page": 1}, methods=["GET"]), Rule("/list/<int:page>", endpoint="list"), Rule("/plain/<path:p>", endpoint="plain")])
        m2.update()
        ad_http, ad_ws = m2.bind("h.com", "/app"), m2.bind("h.com", "/app", url_scheme="ws")
        reqs = [(ad_http, "/items/7", "GET"), (ad_http, "/items/7", "POST"), (ad_http, "/chat/7", "GET"), (ad_ws, "/chat/7", "GET"), (ad_ws, "/items/7", "GET"),
                (ad_http, "/list/1", "GET"), (ad_http, "/list/1", "POST"), (ad_http, "/plain/a", "DELETE"), (ad_http, "/nope", "GET")]

        def outcome3(ad_, p_, meth_):
            try:
                ep_, args_ = ad_.match(p_, method=meth_)
                return ("match", ep_, tuple(sorted(args_.items())))
            except RequestRedirect as e_:
                return ("redirect", e_.new_url)
            except HTTPException as e_:
                return (type(e_).__name__,)
            except Exception as e_:  # noqa: BLE001
                return ("EXC", type(e_).__name__)

        alone = [outcome3(*rq) for rq in reqs]
        wrong = []
        old_si = _sys.getswitchinterval()
        _sys.setswitchinterval(1e-5)
        try:
            def steady(i):
                r_ = __import__("random").Random(i)
                for _ in range(100):
                    k_ = r_.randrange(len(reqs))
                    got_ = outcome3(*reqs[k_])
                    if got_ != alone[k_] and len(wrong) < 3:
                        wrong.append((reqs[k_][1:], got_, alone[k_]))

            ts = [threading.Thread(target=steady, args=(i,)) for i in range(4)]
            for t in ts:
                t.start()
            for t in ts:
                t.join(120)
        finally:
            _sys.setswitchinterval(old_si)
        rec.case()
        rec.observe("concurrent_steady_state_matches", 400)
        rec.nontrivial(("conc-steady", len(reqs)))
        for rq, got_, exp_ in wrong[:1]:
            rec.violation("C12/concurrent-requests-interfere", f"match{rq!r} on one of 4 threads: {got_!r}; alone: {exp_!r}", {"request": list(rq)}, monitor="schedule-stress")
        # ---- first requests on a fresh map: several threads reach the same nodes of the routing tree for the first time at the same moment (a server that has
        # just started, or just added rules).  Whatever the matcher prepares lazily per node is prepared under their feet; each request is still answered as alone.
        for rnd in range(n):
            def fresh():
                return Map([Rule("/u/<int:uid>", endpoint="user_by_id"), Rule("/u/<any(core,docs,infra):team>", endpoint="team"), Rule("/u/<name>", endpoint="user"),
                            Rule("/u/<name>/<int:n>", endpoint="user_item"), Rule("/<path:page>/", endpoint="wiki"), Rule("/t/<float:f>", endpoint="t_float"), Rule("/t/<uuid:u>", endpoint="t_uuid"),
                            Rule("/t/<string(length=3):s>", endpoint="t_s3"), Rule("/t/<s>", endpoint="t_s")])

            paths = ["/u/bob", "/u/7", "/u/docs", "/u/bob/3", "/t/1.5", "/t/abc", "/t/abcd", "/t/12345678-1234-5678-1234-567812345678", "/wiki/page", "/u/x y"]
            ref = fresh().bind("example.com", "/")
            alone = {p_: outcome3(ref, p_, "GET") for p_ in paths}
            m3 = fresh()
            if rnd % 2:
                m3.update()
            else:
                m3.add(Rule("/late/<int:k>", endpoint="late"))
            ad3 = m3.bind("example.com", "/")
            NT3 = 6
            start3 = threading.Barrier(NT3)
            wrong3 = []
            order = [rng.sample(paths, len(paths)) for _ in range(NT3)]
            first_path = rng.choice(paths)  # everybody's first request goes to the same part of the tree, a moment apart
            for o_ in order:
                o_.remove(first_path)
                o_.insert(0, first_path)
            gap = rng.choice((0.0005, 0.001, 0.002, 0.003))
            jitter[0] = __import__("random").Random(rng.random())

            def first_requests(i):
                start3.wait()
                time.sleep(i * gap)
                for p_ in order[i]:
                    got_ = outcome3(ad3, p_, "GET")
                    if got_ != alone[p_] and len(wrong3) < 3:
                        wrong3.append((p_, got_, alone[p_]))

            old_si = _sys.getswitchinterval()
            _sys.setswitchinterval(1e-5)
            try:
                ts = [threading.Thread(target=first_requests, args=(i,)) for i in range(NT3)]
                for t in ts:
                    t.start()
                for t in ts:
                    t.join(120)
            finally:
                _sys.setswitchinterval(old_si)
            rec.case()
            rec.observe("concurrent_first_requests_on_a_fresh_map", NT3 * len(paths))
            rec.nontrivial(("conc-first-requests", rnd))
            for p_, got_, exp_ in wrong3[:1]:
                rec.violation("C12/concurrent-requests-interfere", f"first requests on a fresh map from {NT3} threads: match({p_!r}) gave {got_!r}; alone: {exp_!r}", {"request": p_, "phase": "first-requests"}, monitor="schedule-stress")
    finally:
        for c_ in codes:
            mon.set_local_events(TOOL, c_, 0)
        mon.free_tool_id(TOOL)


def aliases_across_hosts(rec, rng):
    """Configuration: a legacy host that only carries alias rules, the canonical rules of the same endpoints living on
    other subdomains (or hosts, with host matching).  A client following the router's redirects from the legacy host ends,
    after one step, at a URL that matches the alias rule's endpoint and arguments - it never comes back to where it was."""
    from urllib.parse import unquote, urlsplit

    from werkzeug.exceptions import HTTPException
    from werkzeug.routing import Map, Rule, Subdomain
    from werkzeug.routing.exceptions import RequestRedirect

    for host_matching in (False, True):
        for extra_same_side in (False, True):
            def H(sub):
                return {"host": f"{sub}.example.com"} if host_matching else {"subdomain": sub}

            rules = [Rule("/", endpoint="index", **H("www")), Rule("/index.html", endpoint="index", alias=True, **H("old")),
                     Rule("/manual/<path:page>", endpoint="manual", **H("docs")), Rule("/manual/<path:page>", endpoint="manual", **H("www")),
                     Rule("/docs/<path:page>.html", endpoint="manual", alias=True, **H("old")),
                     Rule("/item/<int:n>/", endpoint="item", **H("www")), Rule("/i/<int:n>", endpoint="item", alias=True, **H("old")), Rule("/i/<int:n>", endpoint="item", alias=True, **H("m"))]
            if extra_same_side:
                rules.append(Rule("/about", endpoint="about", **H("old")))  # the legacy host also has a page of its own
            m = Map(rules, host_matching=host_matching)

            def bind(host):
                return m.bind(host, "/") if host_matching else m.bind("example.com", "/", subdomain=host[: -len(".example.com")])

            for start_host, path, want in (("old.example.com", "/index.html", ("index", {})), ("old.example.com", "/docs/intro/setup.html", ("manual", {"page": "intro/setup"})),
                                           ("old.example.com", "/i/5", ("item", {"n": 5})), ("m.example.com", "/i/6", ("item", {"n": 6})), ("old.example.com", "/docs/a b/é.html", ("manual", {"page": "a b/é"}))):
                case = {"family": "aliases-across-hosts", "host_matching": host_matching, "legacy_host_has_own_page": extra_same_side, "start": f"http://{start_host}{path}"}
                rec.case()
                rec.nontrivial(("alias-hosts", host_matching, extra_same_side, start_host, path))
                rec.observe("alias_requests_on_a_legacy_host")
                host, cur, trail = start_host, path, []
                for hop in range(4):
                    try:
                        got = bind(host).match(cur)
                        break
                    except RequestRedirect as e:
                        u = urlsplit(e.new_url)
                        trail.append(e.new_url)
                        if (u.netloc, unquote(u.path)) == (host, cur) or trail.count(e.new_url) > 1:
                            rec.violation("C12/redirect-chain-does-not-terminate", f"{case['start']} is redirected to {e.new_url!r}: the client is where it was (trail {trail})", case, monitor="follow")
                            got = None
                            break
                        host, cur = u.netloc, unquote(u.path)
                    except HTTPException as e:
                        rec.violation("C12/redirect-target-does-not-match", f"{case['start']} -> {trail}: {type(e).__name__}", case, monitor="follow")
                        got = None
                        break
                else:
                    rec.violation("C12/redirect-chain-does-not-terminate", f"{case['start']}: still redirected after 4 steps: {trail}", case, monitor="follow")
                    continue
                if got is None:
                    continue
                if not trail:
                    rec.violation("C12/alias-not-redirected", f"{case['start']} matched {got!r} without a redirect", case, monitor="follow")
                elif (got[0], dict(got[1])) != want:
                    rec.violation("C12/redirect-changes-endpoint-or-arguments", f"{case['start']} -> {trail} ends at {got!r}, the alias rule denotes {want!r}", case, monitor="follow")
                else:
                    rec.observe("followed_to_match")


def run(shard, rec, rng):
    from werkzeug.routing import map as MP

    reach = Reach(rec, {"MapAdapter.make_redirect_url": opt(lambda: MP.MapAdapter.make_redirect_url), "MapAdapter.get_default_redirect": opt(lambda: MP.MapAdapter.get_default_redirect),
                        "MapAdapter.make_alias_redirect_url": opt(lambda: MP.MapAdapter.make_alias_redirect_url), "MapAdapter.match": opt(lambda: MP.MapAdapter.match),
                        "MapAdapter.encode_query_args": opt(lambda: MP.MapAdapter.encode_query_args), "MapAdapter.get_host": opt(lambda: MP.MapAdapter.get_host)})
    cfg = TIERS[shard["_tier"]]
    concurrent_first_use(rec, rng, 5 if shard["_tier"] == "quick" else 30)
    late_rule_histories(rec, rng, 60 if shard["_tier"] == "quick" else 600)
    aliases_across_hosts(rec, rng)
    fresh_maps_and_second_bindings(rec, rng)
    endpoint_families(rec, rng)
    for _ in range(cfg["maps"]):
        rules = gen_rules(rng)
        check_map(rec, rng, rules, rng.random() < 0.6, rng.random() < 0.6, rng.random() < 0.8, rng.choice(["/", "/app", "/app/", "/a/b", "/caf\u00e9", "/m n/"]),
                  rng.choice(["http", "https", "http", "https", "ws", "wss"]), rng.choice([None, None, "www"]))
    reach.finish()


def replay(case, rec):
    rec.case()
    rec.note("C12 replay: maps are regenerated from the seed; the replay file documents rules, settings, path and redirect")
