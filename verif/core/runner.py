"""vcheck driver: plans shards, runs them as separate worker processes, merges what the
monitors observed, matches violations against KNOWN_FINDINGS.txt, writes evidence + replays.

Exit codes: 0 held on what was observed; 1 violation (prints VIOLATION lines); 2 inconclusive.
"""
from __future__ import annotations

import heapq
import importlib
import json
import os
import random
import shutil
import subprocess
import sys
import tempfile
import time
from array import array
from collections import Counter
from concurrent.futures import ThreadPoolExecutor

from .recorder import Recorder, h64, unjson

ROOT = os.path.dirname(os.path.dirname(os.path.dirname(os.path.abspath(__file__))))
PY = "/venv/bin/python" if os.path.exists("/venv/bin/python") else sys.executable
PROPS = [f"C{i:02d}" for i in range(1, 21)]


def src_root() -> str:
    return os.environ.get("VERIF_SRC", "/repo/src")


def load_prop(pid: str):
    import pkgutil

    from .. import props

    for m in pkgutil.iter_modules(props.__path__):
        if m.name.lower().startswith(pid.lower()):
            return importlib.import_module(f"verif.props.{m.name}")
    raise SystemExit(f"no property module for {pid}")


def shard_rng(seed: int, pid: str, shard) -> random.Random:
    return random.Random(h64(f"{seed}|{pid}|{json.dumps(shard, sort_keys=True)}"))


# ---------------------------------------------------------------------------------------------
# known findings


def load_findings(path=None):
    path = path or os.path.join(ROOT, "KNOWN_FINDINGS.txt")
    known = {}
    if os.path.exists(path):
        for line in open(path, encoding="utf-8"):
            line = line.strip()
            if not line.startswith("known:"):
                continue
            fields = dict(
                tok.split("=", 1) for tok in line[6:].split() if "=" in tok and tok.split("=")[0] in ("property", "key")
            )
            if "key" in fields:
                desc = line.split(fields["key"], 1)[1].strip()
                known[fields["key"]] = (fields.get("property", ""), desc)
    return known


# ---------------------------------------------------------------------------------------------
# worker side


def ensure_deps():
    deps = os.path.join(ROOT, ".deps")
    if deps not in sys.path:
        sys.path.insert(0, deps)
    try:
        import icontract  # noqa: F401

        return "icontract"
    except Exception:
        return "builtin"


def jsonable_shard(shard):
    return {k: v for k, v in shard.items() if isinstance(v, (str, int, float, bool, type(None)))}


def worker_main(pid: str, shard_file: str, out_file: str):
    src = src_root()
    sys.path.insert(0, src)
    ensure_deps()
    import werkzeug

    wf = os.path.realpath(werkzeug.__file__)
    if not wf.startswith(os.path.realpath(src) + os.sep):
        print(f"werkzeug imported from {wf}, not from {src}", file=sys.stderr)
        sys.exit(3)
    shard = json.load(open(shard_file))
    linecov = _start_line_reach(src) if os.environ.get("VERIF_LINECOV") else None
    mod = load_prop(pid)
    rec = Recorder(pid, shard)
    rec.obs["_worker_started"] = 1
    rng = shard_rng(int(shard.get("_seed", 0)), pid, shard)
    # configuration every worker varies: the process's local time zone (it is not part of the meaning of any header,
    # cookie or date werkzeug handles).  Two thirds of the workers run under a zone that is not UTC.
    import time as _time

    tz = (None, "JST-9", "EST5EDT")[int(shard.get("index", 0) or 0) % 3] if os.environ.get("VERIF_TZ", "vary") == "vary" else None
    if tz and hasattr(_time, "tzset") and shard.get("_replay") is None:
        os.environ["TZ"] = tz
        _time.tzset()
        rec.obs["workers_under_a_non_utc_time_zone"] = 1
    if shard.get("_replay") is not None:
        mod.replay(unjson(shard["_replay"]), rec)
    else:
        try:
            mod.run(shard, rec, rng)
        except Exception as e:  # noqa: BLE001
            # safety net: an exception raised *inside werkzeug* that a workload did not expect ends that workload, but
            # it is a finding about the code, not a reason to lose the shard (anything raised by the harness itself
            # still kills the worker and makes the run inconclusive)
            import traceback

            frames = traceback.extract_tb(e.__traceback__)
            if not frames or "/werkzeug/" not in frames[-1].filename:
                raise
            where = f"{frames[-1].filename.rsplit('/werkzeug/', 1)[1]}:{frames[-1].name}"
            rec.violation(f"{pid}/unexpected-exception:{type(e).__name__}@{where}", "workload aborted by an exception out of werkzeug:\n" + "".join(traceback.format_exception(type(e), e, e.__traceback__))[-1800:],
                          {"shard": jsonable_shard(shard)}, monitor="boundary")
            rec.obs["workloads_aborted_by_an_exception"] = rec.obs.get("workloads_aborted_by_an_exception", 0) + 1
    rec.shard = shard
    rec.obs["_werkzeug_file"] = 0
    rec.notes.insert(0, f"werkzeug={wf}")
    rec.dump(out_file)
    if linecov is not None:
        d = os.environ["VERIF_LINECOV"]
        os.makedirs(d, exist_ok=True)
        with open(os.path.join(d, f"{pid}-{os.getpid()}.json"), "w") as f:
            json.dump({k: sorted(v) for k, v in linecov.items()}, f)


def _start_line_reach(src):
    """Opt-in (VERIF_LINECOV=<dir>): which lines of werkzeug did this worker's workload execute?  A sys.monitoring LINE
    callback that records the location once and disables itself for it, so the cost is one callback per distinct
    line.  tools/line_reach.py merges the per-worker files and lists the lines of the anchored functions that no
    workload reached - the map of what the monitors cannot have an opinion on."""
    mon = sys.monitoring
    tool = mon.COVERAGE_ID
    prefix = os.path.realpath(src) + os.sep
    seen: dict[str, set] = {}
    names: dict[str, str | None] = {}

    def on_line(code, line):
        fn = code.co_filename
        rel = names.get(fn)
        if rel is None and fn not in names:
            real = os.path.realpath(fn)
            rel = names[fn] = real[len(prefix):] if real.startswith(prefix) else None
        if rel is not None:
            seen.setdefault(rel, set()).add(line)
        return mon.DISABLE

    try:
        mon.use_tool_id(tool, "verif-line-reach")
    except ValueError:
        return None
    mon.register_callback(tool, mon.events.LINE, on_line)
    mon.set_events(tool, mon.events.LINE)
    return seen


# ---------------------------------------------------------------------------------------------
# parent side


def _run_worker(pid, shard, idx, scratch, timeout):
    sf = os.path.join(scratch, f"shard{idx}.json")
    of = os.path.join(scratch, f"out{idx}.json")
    with open(sf, "w") as f:
        json.dump(shard, f)
    env = dict(os.environ)
    env.update(
        PYTHONHASHSEED="0",
        PYTHONDONTWRITEBYTECODE="1",
        PYTHONPATH=ROOT,
        VERIF_SRC=src_root(),
        PYTHONWARNINGS=env.get("PYTHONWARNINGS", "ignore"),
    )
    cmd = [PY, "-X", "faulthandler", "-m", "verif.core.runner", "--worker", pid, sf, of]
    t0 = time.time()
    try:
        p = subprocess.run(cmd, env=env, cwd=ROOT, capture_output=True, timeout=timeout)
        rc, err = p.returncode, p.stderr.decode("utf-8", "replace")[-3000:]
    except subprocess.TimeoutExpired as e:
        rc, err = "timeout", (e.stderr or b"").decode("utf-8", "replace")[-3000:]
    res = None
    if rc == 0 and os.path.exists(of):
        res = json.load(open(of))
    return {"idx": idx, "shard": shard, "rc": rc, "stderr": err, "res": res, "wall": time.time() - t0}


def _count_distinct(files):
    def it(fn):
        a = array("Q")
        with open(fn, "rb") as f:
            a.frombytes(f.read())
        return iter(a)

    n, last = 0, None
    for h in heapq.merge(*[it(f) for f in files]):
        if h != last:
            n += 1
            last = h
    return n


def check(pid: str, tier: str, seed: int, replay: str | None = None, jobs: int | None = None) -> int:
    t0 = time.time()
    mod = load_prop(pid)
    jobs = jobs or int(os.environ.get("VERIF_JOBS", "16"))
    scratch = tempfile.mkdtemp(prefix=f"vcheck-{pid}-")
    try:
        if replay:
            rp = json.load(open(replay))
            shards = [{"_replay": rp["case"], "_seed": rp.get("seed", seed), "_tier": tier}]
        else:
            shards = mod.shards(tier, seed)
            for s in shards:
                s["_seed"] = seed
                s["_tier"] = tier
        timeout = getattr(mod, "WORKER_TIMEOUT", {"quick": 600, "thorough": 3000})[tier]
        with ThreadPoolExecutor(max_workers=jobs) as ex:
            outs = list(ex.map(lambda a: _run_worker(pid, a[1], a[0], scratch, timeout), enumerate(shards)))
        return _merge_and_report(pid, mod, tier, seed, outs, t0, is_replay=bool(replay))
    finally:
        shutil.rmtree(scratch, ignore_errors=True)


def _merge_and_report(pid, mod, tier, seed, outs, t0, is_replay=False) -> int:
    known = load_findings()
    evaluations = 0
    obs = Counter()
    sets: dict[str, set] = {}
    samples, notes, viol = [], [], {}
    inconclusive = []
    hash_files = []
    for o in outs:
        r = o["res"]
        if r is None:
            inconclusive.append(f"worker {o['idx']} {o['shard'].get('kind', '')} rc={o['rc']}: {o['stderr'][-400:]}")
            continue
        evaluations += r["evaluations"]
        obs.update(r["obs"])
        for k, v in r["sets"].items():
            sets.setdefault(k, set()).update(v)
        for s in r["samples"]:
            if len(samples) < 12:
                samples.append(s)
        for n in r["notes"]:
            if n not in notes and len(notes) < 60:
                notes.append(n)
        hash_files.append(r["hashes_file"])
        for k, v in r["violations"].items():
            d = viol.setdefault(k, {"count": 0, "witnesses": []})
            d["count"] += v["count"]
            d["witnesses"].extend(v["witnesses"][: max(0, 3 - len(d["witnesses"]))])
    distinct = _count_distinct(hash_files) if hash_files else 0

    required = [] if is_replay else list(getattr(mod, "REQUIRED_OBS", []))
    for name in required:
        if name.startswith("reach:") and obs.get("reach_skipped:" + name[6:], 0) > 0:
            continue  # the anchored function no longer exists (refactoring): the probe is skipped, never failed
        if obs.get(name, 0) <= 0:
            inconclusive.append(f"deciding monitor/probe '{name}' observed nothing")
    if not is_replay:
        if evaluations <= 0:
            inconclusive.append("no case was evaluated")
        if distinct < 2:
            inconclusive.append("fewer than 2 distinct non-trivial cases")
    extra = getattr(mod, "inconclusive_reasons", None)
    if extra and not is_replay:
        inconclusive.extend(extra(obs, sets, tier))

    lines, n_unknown, known_seen = [], 0, []
    replay_root = os.environ.get("VERIF_REPLAY_DIR") or os.path.join(ROOT, "replays")
    os.makedirs(os.path.join(replay_root, pid), exist_ok=True)
    for key in sorted(viol):
        v = viol[key]
        if key in known:
            known_seen.append(key)
            lines.append(f"KNOWN-FINDING: property={pid} {key} {known[key][1]} (seen {v['count']}x)")
            continue
        n_unknown += 1
        w = v["witnesses"][0]
        rp = {
            "property": pid,
            "key": key,
            "seed": seed,
            "tier": tier,
            "monitor": w.get("monitor", ""),
            "message": w["message"],
            "case": w["case"],
            "count_in_run": v["count"],
            "other_witnesses": v["witnesses"][1:],
        }
        name = f"{h64(key + json.dumps(w['case'], sort_keys=True)):016x}.json"
        path = os.path.join(replay_root, pid, name)
        with open(path, "w") as f:
            json.dump(rp, f, indent=1)
        lines.append(f"VIOLATION property={pid} replay={path}")
        lines.append(f"  key={key} count={v['count']} :: {w['message'].splitlines()[0][:300] if w['message'] else ''}")

    wall = time.time() - t0
    ev = {
        "property_id": pid,
        "tier": tier,
        "seed": seed,
        "level": "exploration",
        "coverage": {
            "evaluations": evaluations,
            "distinct_nontrivial": distinct,
            "rule": getattr(mod, "RULE", ""),
            "samples": samples or ["<none>"],
            "exhaustive": bool(getattr(mod, "EXHAUSTIVE", {}).get(tier, False)),
            "exhaustive_subspaces": getattr(mod, "EXHAUSTIVE_SUBSPACES", {}).get(tier, []),
            "observed": {k: v for k, v in sorted(obs.items()) if not k.startswith("_")},
            "distinct_states": {k: len(v) for k, v in sorted(sets.items())},
            "distinct_state_members": {k: sorted(v)[:40] for k, v in sorted(sets.items())},
            "workers": len(outs),
            "workers_failed": sum(1 for o in outs if o["res"] is None),
            "known_findings_seen": known_seen,
            "violation_keys": {k: v["count"] for k, v in viol.items()},
            "inconclusive": inconclusive,
            "verdict": "violated" if n_unknown else ("inconclusive" if inconclusive else "held-on-observed"),
            "notes": notes,
            "source_root": src_root(),
        },
        "assumptions": list(getattr(mod, "ASSUMPTIONS", [])),
        "wall_s": round(wall, 2),
        "violations": n_unknown,
    }
    if not is_replay:
        ev_dir = os.environ.get("VERIF_EVIDENCE_DIR") or os.path.join(ROOT, "evidence")
        os.makedirs(ev_dir, exist_ok=True)
        with open(os.path.join(ev_dir, f"{pid}.json"), "w") as f:
            json.dump(ev, f, indent=1, sort_keys=False)
    for ln in lines:
        print(ln)
    summary = (
        f"{pid} tier={tier} seed={seed} evaluations={evaluations} distinct_nontrivial={distinct} "
        f"violations={n_unknown} known={len(known_seen)} wall={wall:.1f}s verdict={ev['coverage']['verdict']}"
    )
    print(summary)
    if n_unknown:
        return 1
    if inconclusive:
        for r in inconclusive[:10]:
            print(f"INCONCLUSIVE property={pid} reason={r}")
        return 2
    return 0


def main(argv=None):
    argv = list(sys.argv[1:] if argv is None else argv)
    if argv and argv[0] == "--worker":
        worker_main(argv[1], argv[2], argv[3])
        return 0
    import argparse

    ap = argparse.ArgumentParser(prog="vcheck")
    ap.add_argument("prop")
    ap.add_argument("--tier", default=None, choices=["quick", "thorough"])
    ap.add_argument("--replay", default=None)
    ap.add_argument("--jobs", type=int, default=None)
    a = ap.parse_args(argv)
    tier = a.tier or os.environ.get("VERIF_TIER") or "quick"
    if tier not in ("quick", "thorough"):
        tier = "quick"
    try:
        seed = int(os.environ.get("VERIF_SEED", "0"))
    except ValueError:
        seed = 0
    if a.prop == "all":
        rc = 0
        for p in PROPS:
            rc = max(rc, check(p, tier, seed, jobs=a.jobs))
        return rc
    return check(a.prop.upper(), tier, seed, replay=a.replay, jobs=a.jobs)


if __name__ == "__main__":
    sys.exit(main())
