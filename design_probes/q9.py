import io, random, collections, itertools
from werkzeug.wsgi import LimitedStream
from werkzeug.exceptions import ClientDisconnected, RequestEntityTooLarge
rnd=random.Random(6)
bad=collections.Counter(); ex={}
def note(k,v): bad[k]+=1; ex.setdefault(k,v)
class Under(io.RawIOBase):
    def __init__(s,data,k,has_readinto,err_at,calls):
        s.data=data; s.pos=0; s.k=k; s.err_at=err_at; s.ncalls=0; s.has=has_readinto
    def readable(s): return True
    def _take(s,n):
        s.ncalls+=1
        if s.err_at is not None and s.ncalls==s.err_at: raise OSError("boom")
        if n is None or n<0: n=len(s.data)
        n=min(n,s.k); d=s.data[s.pos:s.pos+n]; s.pos+=len(d); return d
    def read(s,n=-1): return s._take(n)
    def __getattribute__(s,name):
        if name=="readinto" and not object.__getattribute__(s,"has"): raise AttributeError(name)
        return object.__getattribute__(s,name)
    def readinto(s,b):
        d=s._take(len(b)); b[:len(d)]=d; return len(d)
OPS=["read1","read5","read100","readall","readline","readline3","readlines","readinto_ba4","readinto_mv4","next","exhaust"]
def apply(st,op):
    if op=="read1": return st.read(1)
    if op=="read5": return st.read(5)
    if op=="read100": return st.read(100)
    if op=="readall": return st.read()
    if op=="readline": return st.readline()
    if op=="readline3": return st.readline(3)
    if op=="readlines": return b"".join(st.readlines())
    if op=="readinto_ba4":
        b=bytearray(4); n=st.readinto(b)
        if len(b)!=4: raise AssertionError(f"buffer length changed to {len(b)}")
        return bytes(b[:n or 0])
    if op=="readinto_mv4":
        b=bytearray(4); n=st.readinto(memoryview(b)); return bytes(b[:n or 0])
    if op=="next":
        try: return next(st)
        except StopIteration: return b""
    if op=="exhaust": return st.exhaust()
for it in range(40000):
    n=rnd.randint(0,12); data=bytes(rnd.choice(b"ab\n") for _ in range(n))
    L=rnd.choice([0,max(0,n-3),n,n+3]); is_max=rnd.random()<.4
    k=rnd.choice([1,2,3,100]); has=rnd.random()<.6; err=rnd.choice([None,None,None,1,2,3])
    u=Under(data,k,has,err,0)
    st=LimitedStream(u,L,is_max=is_max)
    wrap=rnd.choice([None,None,1,2,8,8192])
    top=st if wrap is None else io.BufferedReader(st,buffer_size=wrap)
    ops=[rnd.choice(OPS) for _ in range(rnd.randint(1,4))]
    if wrap is not None: ops=[o for o in ops if o!="exhaust"] or ["read5"]
    out=b""; term=None
    for op in ops:
        try: out+=apply(top,op)
        except ClientDisconnected: term="disc"; break
        except RequestEntityTooLarge: term="413"; break
        except Exception as e: term="EXC:"+type(e).__name__+":"+str(e)[:40]; break
    cfg=(data,L,is_max,k,has,err,wrap,ops)
    if term and term.startswith("EXC"): note(term,cfg); continue
    if not data[:L].startswith(out): note("not-prefix",(cfg,out)); continue
    if u.pos>L: note("over-read",(cfg,u.pos)); continue
    if st._pos!=u.pos: note("pos-mismatch",(cfg,st._pos,u.pos))
    if term=="disc" and not (err is not None or (len(data)<L and not is_max)): note("spurious-disc",cfg)
    if term=="413" and not is_max: note("spurious-413",cfg)
    if u.ncalls>len(data)+len(ops)*3+10: note("many-calls",(cfg,u.ncalls))
for k_,c in bad.most_common(): print(c,k_,ex[k_])
print("done")
