"""Reference semantics for werkzeug URL rules, built from a rule AST (never from werkzeug's own
parse of the rule string).  Shared by C03, C04 and C12.

A rule AST is a dict: segs = list of ("lit", text) | ("var", prefix, conv, suffix, name),
tail = None | ("path", name), branch (bool), methods (None | list), ep (endpoint name),
optional per-rule strict / merge overrides, defaults, alias.
A converter ``conv`` is a tuple (spec, pyfunc|None, regex, weight, canonical_values).
"""
from __future__ import annotations

import re
import sys
import uuid as _uuid

UUID_RE = r"[A-Fa-f0-9]{8}-[A-Fa-f0-9]{4}-[A-Fa-f0-9]{4}-[A-Fa-f0-9]{4}-[A-Fa-f0-9]{12}"

INT_MAX_DIGITS = getattr(sys, "get_int_max_str_digits", lambda: 4300)() or 10**6



class Refused(ValueError):
    """the text fits the converter's pattern but has no value (the converter refuses it: the rule does not admit the path)"""


def _finite_float(v):
    f = float(v)
    if f in (float("inf"), float("-inf")):
        raise Refused(v)
    return f


CONVS = [
    # (decoded) segment values that contain what a URL would have to escape: a literal per cent sign in front of two hex
    # digits, query / fragment / parameter delimiters
    ("string", None, r"[^/]+", 100, ["a", "zz", "12", "1.5", "a b", "ü", "ab", "x1", "a%20b", "50%", "x?y", "q;r", "%2F", "a#b", "%25"]),
    ("string(length=2)", None, r"[^/]{2}", 100, ["zz", "12", "ab"]),
    ("string(minlength=2)", None, r"[^/]{2,}", 100, ["zz", "123", "abc", "x%41", "%zz"]),
    ("string(minlength=2, maxlength=3)", None, r"[^/]{2,3}", 100, ["zz", "123"]),
    # an int is a run of digits that int() converts: the interpreter refuses more than sys.get_int_max_str_digits() digits
    ("int", int, r"\d{1,%d}" % INT_MAX_DIGITS, 50, ["1", "12", "007", "0"]),
    ("int(fixed_digits=2)", int, r"\d{2}", 50, ["12", "07"]),
    ("int(fixed_digits=3)", int, r"\d{3}", 50, ["123", "007"]),
    # the same option given positionally (the first positional argument of the int converter is fixed_digits)
    ("int(3)", int, r"\d{3}", 50, ["123", "007", "002"]),
    # a float is digits, a point, digits that float() converts to a finite number (more digits than a float holds give inf,
    # for which there is no URL): the 17 and more digits, and the many leading zeros, that str() writes with an exponent
    ("float", _finite_float, r"\d+\.\d+", 50, ["1.5", "12.0", "10000000000000000.0", "0.00001", "123456789012345678901.5"]),
    ("any(a,bc)", None, r"(?:a|bc)", 100, ["a", "bc"]),
    ("any(ab,x1,12)", None, r"(?:ab|x1|12)", 100, ["ab", "x1", "12"]),
    ("uuid", _uuid.UUID, UUID_RE, 100, ["12345678-1234-1234-1234-1234567890ab"]),
]
LITS = ["a", "b", "ab", "x1", "12", "zz"]


def rule_str(r):
    parts = []
    for s in r["segs"]:
        if s[0] == "lit":
            parts.append(s[1])
        else:
            parts.append(f"{s[1]}<{s[2][0]}:{s[4]}>{s[3]}")
    if r["tail"]:
        parts.append(f"<path:{r['tail'][1]}>")
    st = "/" + "/".join(parts)
    if r["branch"] and st != "/":
        st += "/"
    return st


def ref_regex(r):
    parts = []
    for s in r["segs"]:
        if s[0] == "lit":
            parts.append(re.escape(s[1]))
        else:
            parts.append(re.escape(s[1]) + f"(?P<{s[4]}>{s[2][2]})" + re.escape(s[3]))
    if r["tail"]:
        # (t1) a trailing path converter admits any text not starting with '/'
        parts.append(f"(?P<{r['tail'][1]}>[^/](?:.*[^/])?)" if r["branch"] else f"(?P<{r['tail'][1]}>[^/].*)")
    return "/" + "/".join(parts)


def _conv_args(r, m):
    out = {}
    for s in r["segs"]:
        if s[0] == "var":
            v = m.group(s[4])
            out[s[4]] = s[2][1](v) if s[2][1] else v
    if r["tail"]:
        out[r["tail"][1]] = m.group(r["tail"][1])
    return out


def admits(r, path, strict):
    """('match', args) | ('slash', None) | None for this exact path (no slash merging).
    ``strict`` is the effective strict_slashes of the rule."""
    try:
        return _admits(r, path, strict)
    except Refused:
        return None


def _admits(r, path, strict):
    rx = ref_regex(r)
    if not r["segs"] and not r["tail"]:
        return ("match", {}) if path == "/" else None
    if r["branch"]:
        m = re.fullmatch(rx + "/", path)
        if m:
            return ("match", _conv_args(r, m))
        m = re.fullmatch(rx, path)
        if m:
            args = _conv_args(r, m)  # (a text the converter refuses is not admitted with or without the slash)
            return ("slash", None) if strict else ("match", args)
        return None
    m = re.fullmatch(rx, path)
    if m:
        return ("match", _conv_args(r, m))
    if not strict:
        m = re.fullmatch(rx + "/", path)
        if m:
            return ("match", _conv_args(r, m))
    return None


def seg_key(s):
    if s[0] == "lit":
        return ("L", s[1])
    return ("V", s[1], s[2][0], s[3])


def dominates(a, b):
    """a is strictly more specific than b under the two documented orders, judged at the first
    segment where the rules differ and only while all earlier segments are identical."""
    ka = [seg_key(s) for s in a["segs"]] + ([("P",)] if a["tail"] else [])
    kb = [seg_key(s) for s in b["segs"]] + ([("P",)] if b["tail"] else [])
    for i, (x, y) in enumerate(zip(ka, kb)):
        if x == y:
            continue
        if x[0] == "L" and y[0] in ("V", "P"):
            return True
        if x[0] == "V" and y[0] == "P" and x[1] == "" and x[3] == "":
            sa = a["segs"][i]
            return sa[2][3] < 200
        if x[0] == "V" and y[0] == "V" and x[1] == x[3] == y[1] == y[3] == "":
            return a["segs"][i][2][3] < b["segs"][i][2][3]
        return False
    return False


def ok_method(r, method):
    ms = r["methods"]
    return ms is None or method in ms or (method == "HEAD" and "GET" in ms)


def eff_methods(r):
    ms = set(r["methods"] or ())
    if "GET" in ms:
        ms.add("HEAD")
    return ms


def merge(p):
    return re.sub("/{2,}", "/", p)
