import itertools, posixpath, os, tempfile, shutil, sys, collections
from werkzeug.security import safe_join
from werkzeug.utils import send_from_directory, secure_filename
from werkzeug.middleware.shared_data import SharedDataMiddleware
from werkzeug.test import create_environ, run_wsgi_app
from werkzeug.exceptions import NotFound
atoms=["..",".","","/","//","\\","C:","C:\\","~","~root","%2e%2e","%2e%2e%2f","\x00","a","a.txt","sub","..a","a..","...","secret.txt","b.txt"]
comps=set(atoms)
for a,b in itertools.product(atoms,repeat=2):
    comps.add(a+"/"+b); comps.add(a+"\\"+b); comps.add(a+b)
for a,b,c in itertools.product(["..",".","","a","sub","secret.txt","\x00","/"],repeat=3): comps.add(a+"/"+b+"/"+c)
comps=sorted(comps)
print(len(comps))
bad=collections.Counter(); ex={}
def inside(base,res):
    nb=posixpath.normpath(base or "."); nr=posixpath.normpath(res)
    if nb=="/": return nr.startswith("/")
    if nb==".": return not nr.startswith("/") and nr!=".." and not nr.startswith("../")
    return nr==nb or nr.startswith(nb+"/")
for base in ["/srv/root","rel/dir","",".","/","/srv/root/","./x/"]:
    for c in comps:
        r=safe_join(base,c)
        if r is not None and not inside(base,r): bad["sj1"]+=1; ex.setdefault("sj1",(base,c,r))
    for c1 in atoms:
        for c2 in atoms:
            r=safe_join(base,c1,c2)
            if r is not None and not inside(base,r): bad["sj2"]+=1; ex.setdefault("sj2",(base,c1,c2,r))
# end to end
top=tempfile.mkdtemp(); root=os.path.join(top,"root"); os.makedirs(os.path.join(root,"sub"))
open(os.path.join(root,"a.txt"),"w").write("A"); open(os.path.join(root,"sub","b.txt"),"w").write("B"); open(os.path.join(top,"secret.txt"),"w").write("SECRET")
opened=[]
def hook(ev,args):
    if ev=="open" and armed[0]: opened.append(args[0])
armed=[False]; sys.addaudithook(hook)
app=SharedDataMiddleware(lambda e,s:(s("404 NOT FOUND",[]),[b"nf"])[1],{"/static":root})
served=0
for c in comps:
    env=create_environ()
    armed[0]=True; opened.clear()
    try:
        resp=send_from_directory(root,c,env); body=b"".join(resp.response) if resp.response else b""; resp.close(); served+=1
    except NotFound: body=b""
    except Exception as e: bad["sfd-exc-"+type(e).__name__]+=1; ex.setdefault("sfd-exc-"+type(e).__name__,(c,str(e))); body=b""
    env=create_environ(); env["PATH_INFO"]="/static/"+c
    try:
        it,st,hd=run_wsgi_app(app,env); body2=b"".join(it)
    except Exception as e: bad["sdm-exc-"+type(e).__name__]+=1; ex.setdefault("sdm-exc-"+type(e).__name__,(c,str(e))); body2=b""
    armed[0]=False
    if b"SECRET" in body or b"SECRET" in body2: bad["leak"]+=1; ex.setdefault("leak",c)
    for p in opened:
        if isinstance(p,(str,bytes)):
            rp=os.path.realpath(p)
            if not str(rp).startswith(root): bad["open-outside"]+=1; ex.setdefault("open-outside",(c,p))
shutil.rmtree(top)
print("served",served)
import unicodedata
for cp in range(0x3000):
    for s in (chr(cp),"a"+chr(cp)+"b",chr(cp)+".txt","../"+chr(cp)):
        try: r=secure_filename(s)
        except Exception as e: bad["sf-exc"]+=1; ex.setdefault("sf-exc",(s,e)); continue
        if not r.isascii() or "/" in r or "\\" in r or any(ch.isspace() for ch in r) or r.startswith(".") or secure_filename(r)!=r: bad["sf"]+=1; ex.setdefault("sf",(s,r))
for k,c in bad.most_common(): print(c,k,ex[k])
print("done")
