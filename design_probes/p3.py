import io
def T(label, f):
    try: print(label, "->", repr(f()))
    except Exception as e: print(label, "EXC", type(e).__name__, e)
from werkzeug.routing import Map, Rule
m=Map([Rule("/<int(fixed_digits=3):x>",endpoint="a"),Rule("/<string:y>",endpoint="b")])
T("route shadow", lambda: m.bind("h").match("/12"))
m=Map([Rule("/<int(max=5):x>",endpoint="a"),Rule("/<string:y>",endpoint="b")])
T("route shadow max", lambda: m.bind("h").match("/12"))
m=Map([Rule("/<int:x>/a",endpoint="a"),Rule("/<string:y>/b",endpoint="b")])
T("route backtrack", lambda: m.bind("h").match("/12/b"))
from werkzeug.wrappers import Response
from werkzeug.wsgi import FileWrapper
from werkzeug.test import create_environ
log=[]
class F(io.BytesIO):
    def close(self): log.append("fclose"); super().close()
r=Response(FileWrapper(F(b"abc")), direct_passthrough=True); r.call_on_close(lambda: log.append("cb"))
it,_,_=r.get_wsgi_response(create_environ()); list(it); it.close(); print("passthrough close:", log)
log.clear()
r=Response(FileWrapper(F(b"abc")), direct_passthrough=True); r.call_on_close(lambda: log.append("cb"))
it,_,h=r.get_wsgi_response(create_environ(method="HEAD")); list(it); it.close(); print("passthrough HEAD close:", log, h)
from werkzeug.serving import DechunkedInput
T("dechunk 0x", lambda: DechunkedInput(io.BytesIO(b"0x3\r\nabc\r\n0\r\n\r\n")).read())
T("dechunk +", lambda: DechunkedInput(io.BytesIO(b"+3\r\nabc\r\n0\r\n\r\n")).read())
T("dechunk _", lambda: DechunkedInput(io.BytesIO(b"1_0\r\nabcdefghijklmnop\r\n0\r\n\r\n")).read())
T("dechunk trunc", lambda: DechunkedInput(io.BytesIO(b"5\r\nabc")).read())
T("dechunk trunc buffered", lambda: io.BufferedReader(DechunkedInput(io.BytesIO(b"5\r\nabc"))).read(4))
T("dechunk noterm", lambda: DechunkedInput(io.BytesIO(b"3\r\nabcX\r\n0\r\n\r\n")).read())
T("dechunk eof header", lambda: DechunkedInput(io.BytesIO(b"3\r\nabc\r\n")).read())
