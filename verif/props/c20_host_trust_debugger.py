"""C20 - host trust and the debugger's gates cannot be bypassed.

(1) host_is_trusted / get_host / Request.host against a label-wise reference over a label grammar;
    an unacceptable or malformed Host must yield False / SecurityError, never another failure.
(2) DebuggedApplication over the exhaustive product command x secret x Host x PIN cookie x frame
    id x evalex x pin on/off with a *spy frame* (records whether eval ran) and a virtual clock:
    the gate is a pure function of the cell.
(3) every PIN attempt history up to the tier's length over {right, wrong, stale-cookie} (DFS with
    the real object's failure counter saved/restored) against a three-line counter model.
"""
from __future__ import annotations

import io
import itertools
import json

from ..monitors.reach import Reach, opt

ID = "C20"
RULE = (
    "host validation: every (host, trusted-list) pair from a label grammar (names, look-alike suffixes/prefixes, "
    "ports incl. non-numeric, IDN and punycode, UTS-46 dots, bracketed IPv6, 64-char and empty labels, case variants) "
    "x lists of plain and dot-prefixed entries; debugger: exhaustive product of command {eval, console, pinauth, "
    "printpin, resource, none} x secret {right, wrong, absent} x 20 Host values x PIN cookie {valid, expired, wrong "
    "hash, malformed ts, no '|', absent} x frame id {known, unknown, non-int} x evalex x pin on/off; PIN histories: "
    "all sequences over {right, wrong, stale} up to the tier's length; every cell/history is distinct; non-trivial = "
    "at least one gate conjunct is false, or the history has >= 2 attempts"
)
REQUIRED_OBS = ["host_pairs", "host_trusted", "host_untrusted", "malformed_hosts", "debugger_cells", "eval_ran", "eval_blocked", "pin_history_nodes", "lockouts_observed",
                "virtual_seconds_slept", "reach:host_is_trusted", "reach:DebuggedApplication.check_pin_trust", "reach:DebuggedApplication.pin_auth",
                "reach:DebuggedApplication._fail_pin_auth", "reach:DebuggedApplication.execute_command", "reach:DebuggedApplication.display_console",
                "pin_configurations", "real_tracebacks", "real_frame_eval_cells"]
ASSUMPTIONS = [
    "letter-case variants of a host: either verdict accepted (the property says so)",
    "a dot-prefixed entry also matches the bare domain (werkzeug's documented behaviour, the debugger's own list relies on it)",
    "PIN histories are bounded by 14 attempts (the failure counter is an unsigned byte: wrap-around after 255 stale-cookie requests is outside the quantified domain)",
]
EXHAUSTIVE = {"quick": True, "thorough": True}
EXHAUSTIVE_SUBSPACES = {"quick": ["debugger product (all cells)", "PIN histories up to length 8", "host label grammar pairs"],
                        "thorough": ["debugger product (all cells)", "PIN histories up to length 12 + wrong^n right for n <= 14", "host label grammar pairs"]}
TIERS = {"quick": dict(nshards=16, hist_len=8), "thorough": dict(nshards=54, hist_len=12)}


def shards(tier, seed):
    n = TIERS[tier]["nshards"]
    return [{"kind": "mix", "index": i, "of": n} for i in range(n)]


# ---------------------------------------------------------------------------------------------
# (1) host trust reference


def norm_host(h):
    """strip port, IDNA-normalise (UTS-46 dots are separators); None if the name cannot be a host name"""
    if h.startswith("["):
        # an IPv6 literal: the name is everything up to the closing bracket, an optional port follows it
        end = h.find("]")
        if end < 0:
            return None
        lit, rest = h[: end + 1], h[end + 1:]
        if rest and not rest.startswith(":"):
            return None
        if rest[1:] and not (rest[1:].isascii() and rest[1:].isdigit()):
            return None  # what follows the colon is not a port
        return lit.lower()
    h, colon, port = h.partition(":")
    if colon and port and not (port.isascii() and port.isdigit()):
        # "port aside" means a port: 'localhost:@evil.com' or 'localhost:80@evil.com/x' name another authority to
        # whoever builds a URL from them, they are malformed Hosts
        return None
    try:
        return h.encode("idna").decode("ascii")
    except UnicodeError:
        return None


def ref_trusted(host, trusted):
    if not host:
        return {False}
    hn = norm_host(host)
    if hn is None or hn == "":
        return {False}
    verdict = False
    case_variant = False
    hl = hn.split(".")
    for ref in trusted:
        sub = ref.startswith(".")
        rn = norm_host(ref[1:] if sub else ref)
        if rn is None:
            return {False, True} if verdict else {False}
        rl = rn.split(".")
        if hl == rl or (sub and len(hl) > len(rl) and hl[-len(rl):] == rl):
            verdict = True
        elif [x.lower() for x in hl] == [x.lower() for x in rl] or (sub and len(hl) > len(rl) and [x.lower() for x in hl[-len(rl):]] == [x.lower() for x in rl]):
            case_variant = True
    if verdict:
        return {True}
    return {True, False} if case_variant else {False}


LABELS = ["localhost", "a", "evil", "com", "evillocalhost", "localhostevil", "xn--nxasmq6b", "ü", "LOCALHOST", "A" * 64, "", "127", "0", "1", "b-c", "a。b"]
ENTRIES = ["[::1]", "[::1]:8080", "localhost", ".localhost", "127.0.0.1", "a.com", ".a.com", "ü.com", ".xn--nxasmq6b", "LOCALHOST", "." + "A" * 64 + ".com", "evil.com:8080", ".com"]
PORTS = ["", ":80", ":abc", ":", ":99999", ":@evil.com", ":80@evil.com/x", ":8\u0660",
         # digits that are not introduced by a colon are not a port (behind a bracketed literal they are garbage)
         "5000", "x80", "@80", "]443"]


def host_pairs(rng, idx, of):
    n = 0
    hosts = set()
    for k in (1, 2, 3):
        for labs in itertools.product(LABELS, repeat=k) if k < 3 else (tuple(rng.choice(LABELS) for _ in range(3)) for _ in range(1500)):
            hosts.add(".".join(labs))
    hosts |= {"127.0.0.1", "127.0.0.1.evil.com", "[::1]", "[::1]:80", "[::2]", "[2001:db8::1]", "[::1", "[::ffff:127.0.0.1]", "localhost.", ".localhost", "a..localhost", "1.127.0.0.1", "127.0.0.10",
              # brackets are for IPv6 literals; a name or an IPv4 address inside them is another (malformed) host
              "[127.0.0.1]", "[localhost]", "[a.localhost]", "[a.com]", "[evil.a.com]",
              # a bracket that is never closed in front of a trusted suffix
              "[x.localhost", "[::1.localhost", "[::1:@evil.a.com", "[.a.com"}
    for h in sorted(hosts):
        for port in PORTS:
            n += 1
            if n % of != idx:
                continue
            for tl in (["localhost"], [".localhost", "127.0.0.1"], ["a.com", ".a.com"], ["[::1]", "localhost"], [rng.choice(ENTRIES), rng.choice(ENTRIES)], [rng.choice(ENTRIES)]):
                yield h + port, tl
            # a configured but empty list trusts nobody (it is not "no validation")
            yield h + port, ([], (), frozenset())[n % 3]
            # the host itself listed with a port, and its parent listed with a leading dot and a port
            if h and ":" not in h:
                yield h + port, [h + ":8080"]
                if "." in h:
                    yield h + port, ["." + h.split(".", 1)[1] + ":443"]


def check_hosts(rec, rng, idx, of):
    from werkzeug.exceptions import SecurityError
    from werkzeug.sansio.utils import get_host, host_is_trusted
    from werkzeug.wrappers import Request

    for host, tl in host_pairs(rng, idx, of):
        rec.case()
        rec.observe("host_pairs")
        rec.nontrivial(("h", host, tuple(tl)))
        case = {"part": "host", "host": host, "trusted": tl}
        exp = ref_trusted(host, tl)
        if norm_host(host) is None:
            rec.observe("malformed_hosts")
        try:
            got = host_is_trusted(host, tl)
        except Exception as e:  # noqa: BLE001
            rec.violation(f"C20/host_is_trusted-raises-{type(e).__name__}", f"{e!r}; {case}", case, monitor="exception-type")
            continue
        rec.observe("host_trusted" if got else "host_untrusted")
        # configuration: the same names in another container (the API takes any iterable of names, or one name as a str)
        def encodable(name_):
            try:
                name_.lstrip(".").partition(":")[0].encode("idna")
                return True
            except UnicodeError:
                return False

        # (an entry that is no host name at all - a label of 64 characters - makes the verdict depend on where it stands in
        # the list: a configuration error, not compared)
        for shape, tl2 in (("tuple", tuple(tl)), ("set", set(tl)), ("generator", (x_ for x_ in tl)), ("str", tl[0] if len(tl) == 1 else None)) if all(encodable(x_) for x_ in tl) else ():
            if tl2 is None:
                continue
            try:
                got2 = host_is_trusted(host, tl2)
            except Exception as e:  # noqa: BLE001
                rec.violation(f"C20/host_is_trusted-raises-{type(e).__name__}", f"trusted names given as {shape}: {e!r}; {case}", case, monitor="exception-type")
                break
            rec.observe("trusted_names_in_another_container")
            if got2 != got:
                rec.violation("C20/untrusted-host-accepted" if got2 else "C20/listed-host-rejected", f"host_is_trusted({host!r}, ...) with the names {tl!r} given as {shape}: {got2}; as a list: {got}", case, monitor="label-reference")
                break
        if got not in exp:
            key = "C20/untrusted-host-accepted" if got else "C20/listed-host-rejected"
            rec.violation(key, f"host_is_trusted({host!r}, {tl!r}) = {got}, reference {sorted(exp)}; {case}", case, monitor="label-reference")
            continue
        # get_host / Request.host: SecurityError iff not trusted (after default-port stripping)
        for scheme in ("http",):
            h2 = host[:-3] if host.endswith(":80") else host
            exp2 = ref_trusted(h2, tl)
            try:
                r = get_host(scheme, host, None, tl)
                ok = True
            except SecurityError:
                ok = False
            except Exception as e:  # noqa: BLE001
                rec.violation(f"C20/get_host-raises-{type(e).__name__}", f"{e!r}; {case}", case, monitor="exception-type")
                continue
            if ok not in exp2:
                rec.violation("C20/get_host-verdict-differs", f"get_host accepted={ok}, reference {sorted(exp2)}; {case}", case, monitor="label-reference")
                continue
            env = {"REQUEST_METHOD": "GET", "wsgi.url_scheme": scheme, "HTTP_HOST": host, "SERVER_NAME": "srv", "SERVER_PORT": "80", "PATH_INFO": "/", "SCRIPT_NAME": "", "QUERY_STRING": ""}
            rq = Request(env)
            rq.trusted_hosts = tl
            try:
                rq.host  # noqa: B018
                ok3 = True
            except SecurityError:
                ok3 = False
            except Exception as e:  # noqa: BLE001
                rec.violation(f"C20/Request.host-raises-{type(e).__name__}", f"{e!r}; {case}", case, monitor="exception-type")
                continue
            if ok3 != ok:
                rec.violation("C20/Request.host-differs-from-get_host", f"{ok3} vs {ok}; {case}", case, monitor="label-reference")
                continue
            # everything else the request derives from the Host: a value, or SecurityError - never another failure
            for attr in ("url", "base_url", "root_url", "host_url", "url_root"):
                try:
                    getattr(rq, attr)
                    ok5 = True
                except SecurityError:
                    ok5 = False
                except Exception as e:  # noqa: BLE001
                    rec.violation(f"C20/Request.{attr}-raises-{type(e).__name__}", f"{e!r}; {case}", case, monitor="exception-type")
                    break
                if ok5 != ok:
                    rec.violation("C20/untrusted-host-accepted" if ok5 else "C20/listed-host-rejected", f"Request.{attr} accepted={ok5}, Request.host accepted={ok}; {case}", case, monitor="label-reference")
                    break
            # the URL helpers validate as well, whichever part of the URL is asked for
            from werkzeug.wsgi import get_current_url as wsgi_url

            for kw in ({}, {"host_only": True}, {"root_only": True}, {"strip_querystring": True}, {"host_only": True, "strip_querystring": True}):
                try:
                    wsgi_url(env, trusted_hosts=tl, **kw)
                    ok4 = True
                except SecurityError:
                    ok4 = False
                except Exception as e:  # noqa: BLE001
                    rec.violation(f"C20/get_current_url-raises-{type(e).__name__}", f"{e!r}; {case}", case, monitor="exception-type")
                    break
                if ok4 != ok:
                    rec.violation("C20/untrusted-host-accepted" if ok4 else "C20/listed-host-rejected", f"wsgi.get_current_url(environ, trusted_hosts={tl!r}, **{kw!r}) accepted={ok4}, get_host accepted={ok}; {case}", case, monitor="label-reference")
                    break
    # an empty Host header is a Host header: it is validated (and refused), whatever SERVER_NAME says
    for tl in (["localhost"], [".localhost", "127.0.0.1"], ["srv.example"]):
        for server in ("localhost", "127.0.0.1", "srv.example", "a.localhost"):
            env = {"REQUEST_METHOD": "GET", "wsgi.url_scheme": "http", "HTTP_HOST": "", "SERVER_NAME": server, "SERVER_PORT": "80", "PATH_INFO": "/", "SCRIPT_NAME": "", "QUERY_STRING": ""}
            case = {"part": "host", "host": "", "trusted": tl, "server_name": server}
            rec.case()
            rec.nontrivial(("empty-host", tuple(tl), server))
            rec.observe("empty_host_headers")
            rq = Request(env)
            rq.trusted_hosts = tl
            try:
                hv = rq.host
                rec.violation("C20/untrusted-host-accepted", f"an empty Host header was accepted as {hv!r} (SERVER_NAME {server!r}, trusted {tl!r})", case, monitor="label-reference")
            except SecurityError:
                pass
            except Exception as e:  # noqa: BLE001
                rec.violation(f"C20/Request.host-raises-{type(e).__name__}", f"{e!r}; {case}", case, monitor="exception-type")


# ---------------------------------------------------------------------------------------------
# (2) debugger product


class FakeTime:
    now = 1_700_000_000.0
    slept = 0.0

    def time(self):
        return self.now

    def sleep(self, s):
        self.slept += s


class SpyFrame:
    def __init__(self):
        self.calls = []

    def eval(self, code):
        self.calls.append(code)
        return "EVAL-RESULT"


def inner(environ, start_response):
    start_response("200 OK", [("Content-Type", "text/plain")])
    return [b"inner"]


def dbg_trusted_ref(host):
    return True in ref_trusted(host, [".localhost", "127.0.0.1"]) if host else False


def dbg_trusted_set(host):
    return ref_trusted(host, [".localhost", "127.0.0.1"]) if host else {False}


HOSTS = ["[127.0.0.1]", "[localhost]", "[a.localhost]:5000", "localhost", "a.localhost", "127.0.0.1", "localhost:5000", "127.0.0.1:80", "evillocalhost", "localhost.evil.com", "127.0.0.1.evil.com", "example.com", None,
         "[::1]", "[::1]:80", "a" * 64 + ".localhost", "a..localhost", "LOCALHOST", "xn--nxasmq6b.localhost", "a。localhost", "ü.localhost", "localhost:abc", ".localhost"]


def check_debugger(rec, idx, of):
    import werkzeug.debug as dbg
    from werkzeug.debug import DebuggedApplication, hash_pin
    from werkzeug.test import create_environ, run_wsgi_app

    ft = FakeTime()
    dbg.time = ft
    n = 0
    for evalex, pin_on, pin_logging in itertools.product([True, False], [True, False], [True, False]):
        # (pin_logging only says whether the PIN is printed at start-up: no gate depends on it)
        app = DebuggedApplication(inner, evalex=evalex, pin_security=pin_on, pin_logging=pin_logging)
        PIN = "111-222-333"
        if pin_on:
            pin_at_start = app.pin  # (read before the cookie name: computing that name also fills in a PIN)
            cname = app.pin_cookie_name
            if pin_at_start is None:
                rec.violation("C20/pin-security-on-without-a-pin", f"DebuggedApplication(evalex={evalex}, pin_security=True, pin_logging={pin_logging}).pin is None: every request passes the PIN gate",
                              {"part": "debugger", "evalex": evalex, "pin_on": pin_on, "pin_logging": pin_logging}, monitor="gate")
                continue
            if pin_logging:
                app.pin = PIN  # the application's own PIN through the setter
            else:
                PIN = app.pin  # the PIN the debugger made up for itself
        else:
            cname = "__wzdX"
        spy = SpyFrame()
        app.frames[12345] = spy
        good = f"{int(ft.now)}|{hash_pin(PIN)}"
        COOKIES = {"valid": good, "expired": f"{int(ft.now - dbg.PIN_TIME - 10)}|{hash_pin(PIN)}", "wronghash": f"{int(ft.now)}|deadbeef0000",
                   "malformed": f"abc|{hash_pin(PIN)}", "nopipe": "justtext", "absent": None, "future": f"{int(ft.now + 10**6)}|{hash_pin('000')}"}
        for cmd, secret, host, ck, frm in itertools.product(["eval", "console", "pinauth", "printpin", "resource", "none"], ["right", "wrong", "absent"], HOSTS, COOKIES, ["known", "unknown", "nonint"]):
            n += 1
            if n % of != idx:
                continue
            spy.calls.clear()
            app._failed_pin_auth.value = 0
            q = {"__debugger__": "yes"}
            path = "/"
            if cmd == "eval":
                q.update(cmd="1+1", frm={"known": "12345", "unknown": "999", "nonint": "abc"}[frm])
            elif cmd == "console":
                q = {}
                path = "/console"
            elif cmd == "pinauth":
                q.update(cmd="pinauth", pin="000-000-000")
            elif cmd == "printpin":
                q.update(cmd="printpin")
            elif cmd == "resource":
                q.update(cmd="resource", f="style.css")
            else:
                q = {}
            if q and secret == "right":
                q["s"] = app.secret
            elif q and secret == "wrong":
                q["s"] = "nope"
            env = create_environ(path, query_string=q)
            if host is None:
                env.pop("HTTP_HOST", None)
            else:
                env["HTTP_HOST"] = host
            if COOKIES[ck] is not None:
                env["HTTP_COOKIE"] = f"{cname}={COOKIES[ck]}"
            cell = {"part": "debugger", "evalex": evalex, "pin_on": pin_on, "pin_logging": pin_logging, "cmd": cmd, "secret": secret, "host": host, "cookie": ck, "frame": frm}
            rec.case()
            rec.observe("debugger_cells")
            try:
                it, status, hd = run_wsgi_app(app, env)
                body = b"".join(it)
            except Exception as e:  # noqa: BLE001
                rec.nontrivial(repr(cell))
                rec.violation(f"C20/debugger-raises-{type(e).__name__}", f"{e!r}; {cell}", cell, monitor="exception-type")
                continue
            ths = dbg_trusted_set(host)
            cookie_ok = (not pin_on) or ck == "valid"
            gate_parts = (evalex, secret == "right", frm == "known", cmd == "eval", cookie_ok)
            if not all(gate_parts) or False in ths:
                rec.nontrivial(repr(cell))
            if spy.calls:
                rec.observe("eval_ran")
                if not (all(gate_parts) and True in ths):
                    missing = [nm for nm, okk in zip(("evalex", "secret", "frame", "cmd", "pin-cookie"), gate_parts) if not okk] + ([] if True in ths else ["trusted-host"])
                    rec.violation("C20/EVAL-GATE-BYPASS:" + "+".join(missing), f"the spy frame's eval ran although {missing} not satisfied; {cell}", cell, monitor="spy-frame")
                    continue
            else:
                rec.observe("eval_blocked")
                if all(gate_parts) and ths == {True}:
                    rec.violation("C20/eval-not-run-although-gate-open", f"{cell}", cell, monitor="spy-frame")
                    continue
            if cmd == "console":
                rendered = b"console" in body.lower() and status.startswith("200") and body != b"inner"
                if rendered and not (evalex and True in ths):
                    rec.violation("C20/CONSOLE-GATE-BYPASS", f"{status}; {cell}", cell, monitor="gate-function")
                    continue
                if rendered and b"EVALEX_TRUSTED = true" in body and not cookie_ok:
                    rec.violation("C20/console-marked-trusted-without-pin", f"{cell}", cell, monitor="gate-function")
                    continue
            if cmd in ("pinauth", "printpin"):
                answered = status.startswith("200") and body != b"inner"
                if answered and not (secret == "right" and True in ths):
                    rec.violation("C20/PIN-ENDPOINT-GATE-BYPASS", f"{status} {body[:60]!r}; {cell}", cell, monitor="gate-function")
                    continue
                if not answered and secret == "right" and ths == {True}:
                    rec.violation("C20/pin-endpoint-silent-for-trusted-host", f"{status} {body[:60]!r}; {cell}", cell, monitor="gate-function")
                    continue
                if cmd == "pinauth" and answered and pin_on:
                    j = json.loads(body)
                    if j.get("auth") and ck != "valid":
                        rec.violation("C20/pinauth-authenticated-with-wrong-pin", f"{j}; {cell}", cell, monitor="gate-function")
    rec.observe("virtual_seconds_slept", int(ft.slept))
    rec.sample({"part": "debugger", "evalex": True, "pin_on": True, "cmd": "eval", "secret": "right", "host": "localhost.evil.com", "cookie": "valid", "frame": "known"})


VERIF_SIDE = []  # commands evaluated in a real traceback frame of raising_app leave their mark here


def raising_app(environ, start_response):
    marker = environ.get("HTTP_X_MARK", "m")  # noqa: F841  (a local for the console to look at)
    raise RuntimeError("boom from the application")


def check_pin_generation_faults(rec, rng):
    """Fault: making up the PIN fails the first time it is needed (the wrapped application's attributes are looked at;
    here its __name__ raises once), the request that needed it fails.  The PIN gate is not open afterwards: a console
    command without a cookie is refused, before and after a later successful generation."""
    import werkzeug.debug as dbg
    from werkzeug.debug import DebuggedApplication
    from werkzeug.test import create_environ, run_wsgi_app

    class Moody:
        def __init__(self, failures):
            self.failures = failures

        @property
        def __name__(self):
            if self.failures > 0:
                self.failures -= 1
                raise RuntimeError("the application object is not ready yet")
            return "moody_app"

        def __call__(self, environ, start_response):
            start_response("200 OK", [("Content-Type", "text/plain")])
            return [b"ok"]

    for failures in (1, 2, 0):
        for first in ("pinauth", "eval", "pin-attribute", "cookie-name"):
            app = DebuggedApplication(Moody(failures), evalex=True, pin_security=True)
            spy = SpyFrame()
            app.frames[777] = spy

            def call(q, cookie=None):
                env = create_environ("/", query_string=dict(q, __debugger__="yes", s=app.secret))
                env["HTTP_HOST"] = "localhost"
                if cookie:
                    env["HTTP_COOKIE"] = cookie
                env["wsgi.errors"] = io.StringIO()
                try:
                    it, st, hd = run_wsgi_app(app, env)
                    return st[:3], b"".join(it)
                except Exception as e:  # noqa: BLE001 - the fault surfaces to whoever made this request
                    return "EXC", type(e).__name__.encode()

            for _ in range(failures + 1):
                if first == "pinauth":
                    call({"cmd": "pinauth", "pin": "000-000-000"})
                elif first == "eval":
                    call({"cmd": "1+1", "frm": "777"})
                else:
                    try:
                        app.pin if first == "pin-attribute" else app.pin_cookie_name  # noqa: B018
                    except RuntimeError:
                        pass
                spy.calls.clear()
                res = call({"cmd": "40+2", "frm": "777"})
                rec.case()
                rec.nontrivial(("pin-generation-fault", failures, first))
                rec.observe("console_commands_after_a_failed_pin_generation")
                if spy.calls:
                    rec.violation("C20/GATE-BYPASS-pin", f"the first PIN generation failed {failures}x (first use through {first}); afterwards a console command without any cookie ran in the frame: {res!r}",
                                  {"part": "pin-generation-fault", "failures": failures, "first_use": first}, monitor="gate")
                    return
            if app.pin is None:
                rec.violation("C20/pin-security-on-without-a-pin", f"after {failures} failed generation(s) (first use through {first}) the debugger's PIN is None", {"part": "pin-generation-fault", "failures": failures, "first_use": first}, monitor="gate")
                return


def check_pin_configuration_and_real_tracebacks(rec, rng):
    """(2c) Configuration: the PIN comes from WERKZEUG_DEBUG_PIN (absent, 'off', digits with or without dashes, junk) -
    'off' and nothing else switches the PIN gate off, a configured PIN is the one that authenticates.  And the real
    thing instead of a spy frame: the application raises, the debugger registers the traceback's frames, and a console
    command runs in such a frame exactly when every gate is open."""
    import os

    import werkzeug.debug as dbg
    from werkzeug.debug import DebuggedApplication, hash_pin
    from werkzeug.test import create_environ, run_wsgi_app

    ft = FakeTime()
    dbg.time = ft
    saved = os.environ.get("WERKZEUG_DEBUG_PIN")

    def call(app, q, host="localhost", cookie=None, path="/", extra=None):
        env = create_environ(path, query_string=q)
        env["HTTP_HOST"] = host
        if cookie:
            env["HTTP_COOKIE"] = cookie
        env.update(extra or {})
        env["wsgi.errors"] = io.StringIO()
        it, status, hd = run_wsgi_app(app, env)
        return status, dict(hd), b"".join(it)

    try:
        for envpin in (None, "off", "123-456-789", "123456789", "1234", "12-34", "abc", "", "off ", "OFF", "0", "12345-67890"):
            if envpin is None:
                os.environ.pop("WERKZEUG_DEBUG_PIN", None)
            else:
                os.environ["WERKZEUG_DEBUG_PIN"] = envpin
            app = DebuggedApplication(inner, evalex=True)
            case = {"part": "pin-config", "WERKZEUG_DEBUG_PIN": envpin}
            rec.case()
            rec.nontrivial(("pin-config", envpin))
            rec.observe("pin_configurations")
            pin = app.pin
            digits_given = envpin is not None and envpin.replace("-", "").isdecimal() and envpin.replace("-", "").isascii()
            if envpin == "off":
                if pin is not None:
                    rec.violation("C20/PIN-config:off-not-honoured", f"WERKZEUG_DEBUG_PIN=off but pin is {pin!r}", case, monitor="gate-function")
                    continue
            elif pin is None:
                rec.violation("C20/PIN-config:pin-switched-off-by-" + ("absent-variable" if envpin is None else "another-value"), f"WERKZEUG_DEBUG_PIN={envpin!r}: the PIN gate is off", case, monitor="gate-function")
                continue
            elif digits_given and pin.replace("-", "") != envpin.replace("-", ""):
                rec.violation("C20/PIN-config:configured-pin-not-used", f"WERKZEUG_DEBUG_PIN={envpin!r}: pin is {pin!r}", case, monitor="gate-function")
                continue
            elif not digits_given and not (pin.replace("-", "").isdigit() and len(pin.replace("-", "")) == 9):
                rec.violation("C20/PIN-config:generated-pin-malformed", f"WERKZEUG_DEBUG_PIN={envpin!r}: pin is {pin!r}", case, monitor="gate-function")
                continue
            spy = SpyFrame()
            app.frames[12345] = spy
            # without a cookie: evaluation runs iff the PIN is switched off
            call(app, {"__debugger__": "yes", "cmd": "1+1", "frm": "12345", "s": app.secret})
            if bool(spy.calls) != (pin is None):
                rec.violation("C20/EVAL-GATE-BYPASS:pin-cookie" if spy.calls else "C20/eval-not-run-although-gate-open", f"WERKZEUG_DEBUG_PIN={envpin!r}, pin {pin!r}, no cookie: eval ran = {bool(spy.calls)}", case, monitor="spy-frame")
                continue
            if pin is not None:
                # the wrong PIN does not authenticate, the configured one does (with or without its dashes)
                wrong = "9" * len(pin.replace("-", "")) if pin.replace("-", "") != "9" * len(pin.replace("-", "")) else "8" * 9
                for entered, want in ((wrong, False), (pin.replace("-", ""), True), (pin, True)):
                    app._failed_pin_auth.value = 0
                    st, hd, body = call(app, {"__debugger__": "yes", "cmd": "pinauth", "pin": entered, "s": app.secret})
                    j = json.loads(body)
                    if bool(j.get("auth")) != want:
                        rec.violation("C20/pinauth-authenticated-with-wrong-pin" if j.get("auth") else "C20/PIN-config:configured-pin-refused", f"WERKZEUG_DEBUG_PIN={envpin!r}, pin {pin!r}: entering {entered!r} gave {j}", case, monitor="gate-function")
                        break
    finally:
        if saved is None:
            os.environ.pop("WERKZEUG_DEBUG_PIN", None)
        else:
            os.environ["WERKZEUG_DEBUG_PIN"] = saved
    # ---- a real traceback
    for pin_on in (True, False):
        app = DebuggedApplication(raising_app, evalex=True, pin_security=pin_on)
        cname = app.pin_cookie_name if pin_on else "__wzdX"
        if pin_on:
            app.pin = "111-222-333"
        good = f"{cname}={int(ft.now)}|{hash_pin('111-222-333')}"
        for page_host in ("localhost", "evil.example"):
            app.frames.clear()
            st, hd, body = call(app, {}, host=page_host, extra={"HTTP_X_MARK": "seen-by-console"})
            case = {"part": "real-traceback", "pin_on": pin_on, "page_host": page_host}
            rec.case()
            rec.nontrivial(("real-traceback", pin_on, page_host))
            rec.observe("real_tracebacks")
            if not st.startswith("500") or not app.frames:
                rec.violation("C20/traceback-page-not-produced", f"{st}, {len(app.frames)} frames registered; {case}", case, monitor="gate-function")
                continue
            if page_host != "localhost" and b"EVALEX = true" in body:
                rec.violation("C20/CONSOLE-GATE-BYPASS", f"the traceback page served to Host {page_host!r} has evaluation switched on", case, monitor="gate-function")
                continue
            frame_ids = [fid for fid, fr in app.frames.items() if getattr(getattr(fr, "code", None), "co_name", "") == "raising_app"] or list(app.frames)
            fid = frame_ids[-1]
            for host, secret, cookie in itertools.product(("localhost", "evil.example", "localhost.evil.example"), ("right", "wrong"), ("valid", "absent")):
                VERIF_SIDE.clear()
                q = {"__debugger__": "yes", "cmd": "__import__('verif.props.c20_host_trust_debugger').props.c20_host_trust_debugger.VERIF_SIDE.append(marker)", "frm": str(fid),
                     "s": app.secret if secret == "right" else "nope"}
                st2, hd2, body2 = call(app, q, host=host, cookie=good if cookie == "valid" else None)
                cell = dict(case, host=host, secret=secret, cookie=cookie)
                rec.case()
                rec.nontrivial(("real-frame-eval", pin_on, page_host, host, secret, cookie))
                rec.observe("real_frame_eval_cells")
                open_ = host == "localhost" and secret == "right" and (cookie == "valid" or not pin_on)
                if VERIF_SIDE and not open_:
                    missing = [nm for nm, okk in (("trusted-host", host == "localhost"), ("secret", secret == "right"), ("pin-cookie", cookie == "valid" or not pin_on)) if not okk]
                    rec.violation("C20/EVAL-GATE-BYPASS:" + "+".join(missing), f"a command ran in a real traceback frame although {missing} not satisfied; {cell}", cell, monitor="real-frame")
                    break
                if open_ and VERIF_SIDE != ["seen-by-console"]:
                    rec.violation("C20/eval-not-run-although-gate-open", f"real traceback frame: side effects {VERIF_SIDE!r}, answer {st2} {body2[:80]!r}; {cell}", cell, monitor="real-frame")
                    break


def check_debugger_histories_and_schedules(rec, rng):
    """(2b) History: the PIN is changed while the process runs - a cookie for the old PIN opens nothing any more.
    Schedule: requests from a trusted and from an untrusted Host are in flight on two threads of one debugger
    (yields injected at the lines of DebuggedApplication's methods) - the untrusted one never evaluates."""
    import sys
    import threading
    import time as _time

    import werkzeug.debug as dbg
    from werkzeug.debug import DebuggedApplication, hash_pin
    from werkzeug.test import create_environ, run_wsgi_app

    ft = FakeTime()
    dbg.time = ft

    def request(app, spy, host, cookie, cmd="1+1"):
        env = create_environ("/", query_string={"__debugger__": "yes", "cmd": cmd, "frm": "12345", "s": app.secret})
        env["HTTP_HOST"] = host
        if cookie:
            env["HTTP_COOKIE"] = f"{app.pin_cookie_name}={cookie}"
        it, status, hd = run_wsgi_app(app, env)
        return status, b"".join(it)

    # ---- the lock-out survives requests that carry a valid cookie (a browser tab that authenticated earlier)
    app = DebuggedApplication(inner, evalex=True, pin_security=True)
    app.pin_cookie_name  # noqa: B018
    app.pin = "111-222-333"
    good_cookie = f"{int(ft.now)}|{hash_pin('111-222-333')}"

    def pinauth(pin, cookie=None):
        env = create_environ("/", query_string={"__debugger__": "yes", "cmd": "pinauth", "pin": pin, "s": app.secret})
        env["HTTP_HOST"] = "localhost"
        if cookie:
            env["HTTP_COOKIE"] = f"{app.pin_cookie_name}={cookie}"
        it, status, hd = run_wsgi_app(app, env)
        return json.loads(b"".join(it))

    for between in (("cookie-pinauth-right",), ("cookie-pinauth-wrong",), ("cookie-pinauth-wrong", "cookie-pinauth-right", "cookie-eval"), ()):
        app._failed_pin_auth.value = 0
        hist = ["wrong"] * 11
        for _ in range(11):
            pinauth("000-000-000")
        locked = pinauth("111-222-333")
        for step in between:
            hist.append(step)
            if step == "cookie-eval":
                spy_ = SpyFrame()
                app.frames[777] = spy_
                env = create_environ("/", query_string={"__debugger__": "yes", "cmd": "1+1", "frm": "777", "s": app.secret})
                env["HTTP_HOST"] = "localhost"
                env["HTTP_COOKIE"] = f"{app.pin_cookie_name}={good_cookie}"
                b"".join(run_wsgi_app(app, env)[0])
            else:
                pinauth("111-222-333" if step.endswith("right") else "123-123-123", cookie=good_cookie)
        after = pinauth("111-222-333")
        rec.case()
        rec.nontrivial(("lockout-with-cookie-requests", between))
        rec.observe("lockouts_followed_by_cookie_requests")
        if locked.get("auth") or after.get("auth"):
            rec.violation("C20/PIN-LOCKOUT-BYPASS", f"11 wrong PINs, then the right one ({locked}), then requests carrying a valid cookie {list(between)!r}, then the right PIN without a cookie: {after}",
                          {"part": "pin", "history": hist + ["right"]}, monitor="counter-model")
            break
    # ---- the PIN changes
    app = DebuggedApplication(inner, evalex=True, pin_security=True)
    app.pin_cookie_name  # noqa: B018  (computing the cookie name also generates the PIN: do it before choosing ours)
    app.pin = "111-222-333"
    spy = SpyFrame()
    app.frames[12345] = spy
    old_cookie = f"{int(ft.now)}|{hash_pin('111-222-333')}"
    rec.case()
    rec.nontrivial(("pin-changed",))
    request(app, spy, "localhost", old_cookie)
    if not spy.calls:
        rec.violation("C20/eval-not-run-although-gate-open", "valid cookie, trusted host, before the PIN change", {"part": "pin-changed"}, monitor="spy-frame")
    spy.calls.clear()
    app.pin = "999-888-777"
    request(app, spy, "localhost", old_cookie)
    rec.observe("pin_changed_histories")
    if spy.calls:
        rec.violation("C20/EVAL-GATE-BYPASS:pin-cookie", "the spy frame's eval ran with a cookie for the PIN that was replaced (app.pin assigned a new value)", {"part": "pin-changed"}, monitor="spy-frame")
    spy.calls.clear()
    request(app, spy, "localhost", f"{int(ft.now)}|{hash_pin('999-888-777')}")
    if not spy.calls:
        rec.violation("C20/eval-not-run-although-gate-open", "cookie for the new PIN refused", {"part": "pin-changed"}, monitor="spy-frame")
    # ---- configuration of one debugger instance is its own: another instance in the process (created before or
    # after) whose list of trusted hosts was extended in place does not make this one trust that host
    first = DebuggedApplication(inner, evalex=True, pin_security=False)
    first.trusted_hosts.append("intranet.example")
    second = DebuggedApplication(inner, evalex=True, pin_security=False)
    third = DebuggedApplication(inner, evalex=True, pin_security=False)
    third.trusted_hosts += [".corp.example"]
    rec.case()
    rec.nontrivial(("two-debuggers",))
    rec.observe("debugger_instances_configured_separately")
    for host in ("intranet.example", "x.corp.example"):
        spy2 = SpyFrame()
        second.frames[12345] = spy2
        st, body = request(second, spy2, host, None)
        envc = create_environ("/console")
        envc["HTTP_HOST"] = host
        itc, stc, hdc = run_wsgi_app(second, envc)
        bodyc = b"".join(itc)
        if spy2.calls or (stc.startswith("200") and b"console" in bodyc.lower() and bodyc != b"inner"):
            rec.violation("C20/EVAL-GATE-BYPASS:trusted-host", f"a debugger that was never configured to trust {host!r} serves it (eval ran: {bool(spy2.calls)}, console: {stc}) because another instance's list was extended",
                          {"part": "two-debuggers", "host": host}, monitor="spy-frame")
            break
    # ---- history: the list of trusted hosts is edited in place after the debugger has answered requests (an operator
    # tightening the list of a running development server): the next request is judged by the list as it is now
    for edit in ("remove", "clear", "slice", "append"):
        dbg = DebuggedApplication(inner, evalex=True, pin_security=False)
        dbg.trusted_hosts = ["127.0.0.1", "localhost", ".dev.example"]
        spy3 = SpyFrame()
        dbg.frames[12345] = spy3
        for h_ in ("127.0.0.1", "localhost", "a.dev.example", "other.example"):
            request(dbg, spy3, h_, None)
        if edit == "remove":
            dbg.trusted_hosts.remove("127.0.0.1")
            now_out, now_in = ["127.0.0.1"], ["localhost", "a.dev.example"]
        elif edit == "clear":
            dbg.trusted_hosts.clear()
            now_out, now_in = ["127.0.0.1", "localhost", "a.dev.example"], []
        elif edit == "slice":
            dbg.trusted_hosts[:] = ["localhost"]
            now_out, now_in = ["127.0.0.1", "a.dev.example"], ["localhost"]
        else:
            dbg.trusted_hosts.append("other.example")
            now_out, now_in = ["evil.example"], ["other.example", "localhost"]
        rec.case()
        rec.nontrivial(("trusted-list-edited-in-place", edit))
        rec.observe("trusted_lists_edited_after_requests")
        for h_ in now_out + now_in:
            spy3.calls.clear()
            request(dbg, spy3, h_, None)
            envc = create_environ("/console")
            envc["HTTP_HOST"] = h_
            itc, stc, hdc = run_wsgi_app(dbg, envc)
            bodyc = b"".join(itc)
            served = bool(spy3.calls) or (stc.startswith("200") and b"console" in bodyc.lower() and bodyc != b"inner")
            if served and h_ in now_out:
                rec.violation("C20/EVAL-GATE-BYPASS:trusted-host", f"after trusted_hosts was edited in place ({edit}) Host {h_!r}, no longer listed, is still served (eval ran: {bool(spy3.calls)}, console: {stc})",
                              {"part": "trusted-list-edited-in-place", "edit": edit, "host": h_}, monitor="spy-frame")
                break
            if not spy3.calls and h_ in now_in:
                rec.violation("C20/eval-not-run-although-gate-open", f"after trusted_hosts was edited in place ({edit}) Host {h_!r}, listed now, is refused", {"part": "trusted-list-edited-in-place", "edit": edit, "host": h_}, monitor="spy-frame")
                break
    # ---- a forking server: every request is handled in a child process; failed PIN attempts still add up
    import os as _os

    if hasattr(_os, "fork"):
        app = DebuggedApplication(inner, evalex=True, pin_security=True)
        app.pin_cookie_name  # noqa: B018
        app.pin = "111-222-333"

        def attempt_in_child(pin):
            rfd, wfd = _os.pipe()
            pid = _os.fork()
            if pid == 0:
                try:
                    q = {"__debugger__": "yes", "cmd": "pinauth", "s": app.secret, "pin": pin}
                    env = create_environ("/", query_string=q)
                    env["HTTP_HOST"] = "localhost"
                    it, status, hd = run_wsgi_app(app, env)
                    _os.write(wfd, b"".join(it))
                except BaseException as e:  # noqa: BLE001
                    _os.write(wfd, json.dumps({"error": repr(e)}).encode())
                finally:
                    _os._exit(0)
            _os.close(wfd)
            data = b""
            while True:
                chunk = _os.read(rfd, 65536)
                if not chunk:
                    break
                data += chunk
            _os.close(rfd)
            _os.waitpid(pid, 0)
            try:
                return json.loads(data)
            except ValueError:
                return {"error": data[:100].decode("latin-1")}

        for _ in range(12):
            attempt_in_child("000-000-000")
        r = attempt_in_child("111-222-333")
        rec.case()
        rec.nontrivial(("forking-server-pin",))
        rec.observe("pin_attempts_in_forked_children", 13)
        if "error" in r:
            rec.observe("forked_attempt_failed_to_run")
            rec.note(f"forked pin attempt: {r}")
        elif r.get("auth"):
            rec.violation("C20/PIN-LOCKOUT-BYPASS", f"12 wrong PINs, each handled in a forked child (forking server), then the right one: {r}", {"part": "pin", "history": ["wrong (forked)"] * 12 + ["right (forked)"]}, monitor="counter-model")
    # ---- trusted and untrusted requests in flight together
    mon = getattr(sys, "monitoring", None)
    TOOL = 5
    codes, inj = [], [0]
    if mon is not None:
        try:
            mon.use_tool_id(TOOL, "verif-yield-c20")
            codes = [f.__code__ for f in vars(DebuggedApplication).values() if hasattr(f, "__code__")]

            def on_line(code, line):
                inj[0] += 1
                _time.sleep(0)

            mon.register_callback(TOOL, mon.events.LINE, on_line)
            for c in codes:
                mon.set_local_events(TOOL, c, mon.events.LINE)
        except ValueError:
            mon = None
    app = DebuggedApplication(inner, evalex=True, pin_security=True)
    app.pin_cookie_name  # noqa: B018
    app.pin = "111-222-333"

    class TaggedSpy(SpyFrame):
        def eval(self, code):
            self.calls.append(code)
            return "EVAL-RESULT"

    spy = TaggedSpy()
    app.frames[12345] = spy
    good = f"{int(ft.now)}|{hash_pin('111-222-333')}"
    answers = {"evil": [], "good": 0}
    old_si = sys.getswitchinterval()
    sys.setswitchinterval(1e-5)
    try:
        def evil():
            for i in range(150):
                st, body = request(app, spy, "evil.example", good, cmd="'from-evil-host'")
                if st.startswith("200") and b"EVAL-RESULT" in body:
                    answers["evil"].append(i)

        def trusted():
            for i in range(150):
                st, body = request(app, spy, "localhost", good, cmd="'from-localhost'")
                answers["good"] += st.startswith("200")

        ths = [threading.Thread(target=evil), threading.Thread(target=trusted), threading.Thread(target=trusted)]
        for t_ in ths:
            t_.start()
        for t_ in ths:
            t_.join(300)
    finally:
        sys.setswitchinterval(old_si)
        if mon is not None:
            for c in codes:
                mon.set_local_events(TOOL, c, 0)
            mon.free_tool_id(TOOL)
    rec.case()
    rec.nontrivial(("overlapping-hosts",))
    rec.observe("overlapping_requests", 450)
    rec.observe("overlapping_injected_yields", inj[0])
    ran_for_evil = [c for c in spy.calls if "from-evil-host" in c]
    if ran_for_evil or answers["evil"]:
        rec.violation("C20/EVAL-GATE-BYPASS:trusted-host", f"code sent with Host evil.example was evaluated {len(ran_for_evil)} times while requests from localhost were in flight on other threads",
                      {"part": "overlapping-hosts"}, monitor="spy-frame")
    if not answers["good"]:
        rec.violation("C20/eval-not-run-although-gate-open", "no request from localhost was answered in the overlap run", {"part": "overlapping-hosts"}, monitor="spy-frame")


# ---------------------------------------------------------------------------------------------
# (3) PIN histories


def check_pin_histories(rec, idx, of, maxlen):
    import werkzeug.debug as dbg
    from werkzeug.debug import DebuggedApplication
    from werkzeug.test import create_environ, run_wsgi_app

    ft = FakeTime()
    dbg.time = ft
    app = DebuggedApplication(inner, evalex=True, pin_security=True)
    cname = app.pin_cookie_name
    app.pin = "111-222-333"

    def attempt(kind):
        q = {"__debugger__": "yes", "cmd": "pinauth", "s": app.secret, "pin": "111-222-333" if kind == "right" else "000"}
        env = create_environ("/", query_string=q)
        env["HTTP_HOST"] = "localhost"
        if kind == "stale":
            env["HTTP_COOKIE"] = f"{cname}={int(ft.now)}|deadbeef0000"
        it, status, hd = run_wsgi_app(app, env)
        return json.loads(b"".join(it))

    MOVES = ["right", "wrong", "stale"]

    def model(f, kind):
        """returns (expected auth, new failure count)"""
        if kind == "stale":
            return False, f + 1
        if f > 10:
            return False, f
        if kind == "right":
            return True, 0
        return False, f + 1

    prefixes = list(itertools.product(MOVES, repeat=3))
    mine = [p for i, p in enumerate(prefixes) if i % of == idx]
    nodes = 0

    def dfs(seq, f, depth):
        nonlocal nodes
        if depth >= maxlen:
            return
        saved = app._failed_pin_auth.value
        for kind in MOVES:
            app._failed_pin_auth.value = saved
            r = attempt(kind)
            nodes += 1
            exp_auth, f2 = model(f, kind)
            rec.case()
            rec.observe("pin_history_nodes")
            s2 = seq + (kind,)
            if len(s2) >= 2:
                rec.nontrivial(("pin", s2))
            if f > 10 and kind == "right":
                rec.observe("lockouts_observed")
            if r["auth"] != exp_auth:
                key = "C20/PIN-LOCKOUT-BYPASS" if r["auth"] else "C20/correct-pin-refused-before-lockout"
                if kind != "right":
                    key = "C20/wrong-pin-accepted"
                rec.violation(key, f"history {s2!r}: auth={r['auth']} exhausted={r.get('exhausted')}, model expects auth={exp_auth} after {f} failures", {"part": "pin", "history": list(s2)}, monitor="counter-model")
                return
            if kind != "stale" and bool(r.get("exhausted")) != (f > 10):
                rec.violation("C20/exhausted-flag-differs", f"history {s2!r}: {r}, failures {f}", {"part": "pin", "history": list(s2)}, monitor="counter-model")
                return
            dfs(s2, f2, depth + 1)
        app._failed_pin_auth.value = saved

    for p in mine:
        app._failed_pin_auth.value = 0
        f = 0
        ok = True
        for k, kind in enumerate(p):
            r = attempt(kind)
            exp_auth, f = model(f, kind)
            if r["auth"] != exp_auth:
                rec.violation("C20/pin-history-prefix", f"{p[:k + 1]!r}: {r}", {"part": "pin", "history": list(p[:k + 1])}, monitor="counter-model")
                ok = False
                break
        if ok:
            dfs(tuple(p), f, 3)
    if idx == 0:
        for nwrong in range(0, 15):
            app._failed_pin_auth.value = 0
            for _ in range(nwrong):
                attempt("wrong")
            r = attempt("right")
            rec.case()
            rec.observe("pin_history_nodes")
            rec.nontrivial(("lockout", nwrong))
            if nwrong > 10:
                rec.observe("lockouts_observed")
            if r["auth"] != (nwrong <= 10):
                rec.violation("C20/PIN-LOCKOUT-BYPASS" if r["auth"] else "C20/correct-pin-refused-before-lockout", f"wrong^{nwrong} right: {r}", {"part": "pin", "history": ["wrong"] * nwrong + ["right"]}, monitor="counter-model")
        # deep lock-out families beyond the DFS depth
        for fam in (["wrong"] * 11 + ["stale"] * 250 + ["right"], ["stale"] * 300 + ["right"], ["wrong"] * 11 + ["stale", "right"], ["stale"] * 11 + ["right"], ["wrong"] * 5 + ["right"] + ["wrong"] * 11 + ["right"], ["wrong"] * 10 + ["right", "right"] + ["wrong"] * 11 + ["right"]):
            app._failed_pin_auth.value = 0
            f = 0
            for k, kind in enumerate(fam):
                r = attempt(kind)
                exp_auth, f = model(f, kind)
                rec.case()
                rec.observe("pin_history_nodes")
                if r["auth"] != exp_auth:
                    rec.violation("C20/PIN-LOCKOUT-BYPASS" if r["auth"] else "C20/correct-pin-refused-before-lockout", f"{fam[:k + 1]!r}: {r}", {"part": "pin", "history": fam[:k + 1]}, monitor="counter-model")
                    break
    if idx == 1 % of:
        # a burst of wrong PINs from parallel requests (threaded server): every one of them counts.  The virtual
        # clock's sleep is a rendezvous, so all requests of a burst are inside their delay at the same time.
        import threading

        class Rendezvous(FakeTime):
            def __init__(self, n):
                self.barrier = threading.Barrier(n)
                self.broken = False

            def sleep(self, s):
                try:
                    self.barrier.wait(timeout=20)
                except threading.BrokenBarrierError:
                    self.broken = True

        for burst in (2, 4, 8):
            for more in (0, 11 - burst):
                app._failed_pin_auth.value = 0
                rv = Rendezvous(burst)
                dbg.time = rv
                errs = []

                def one():
                    try:
                        attempt("wrong")
                    except Exception as e:  # noqa: BLE001
                        errs.append(repr(e))

                ths = [threading.Thread(target=one) for _ in range(burst)]
                for t_ in ths:
                    t_.start()
                for t_ in ths:
                    t_.join(60)
                dbg.time = ft
                rec.case()
                rec.nontrivial(("pin-burst", burst, more))
                case = {"part": "pin", "history": [f"{burst} parallel wrong", f"{more} wrong", "right"]}
                if rv.broken or errs or any(t_.is_alive() for t_ in ths):
                    rec.observe("pin_burst_not_overlapped")
                    continue
                rec.observe("pin_bursts_overlapped")
                counted = app._failed_pin_auth.value
                if counted != burst:
                    rec.violation("C20/failed-pin-attempts-lost-under-concurrency", f"{burst} parallel failed attempts advanced the counter to {counted}", case, monitor="counter-model")
                    break
                for _ in range(more):
                    attempt("wrong")
                r = attempt("right")
                exp_auth = burst + more <= 10
                if r["auth"] != exp_auth:
                    rec.violation("C20/PIN-LOCKOUT-BYPASS" if r["auth"] else "C20/correct-pin-refused-before-lockout", f"{case['history']}: {r}", case, monitor="counter-model")
                    break
    rec.observe("virtual_seconds_slept", int(ft.slept))
    rec.sample({"part": "pin", "history": ["wrong"] * 11 + ["right"], "expected": "refused (exhausted)"})


def run(shard, rec, rng):
    import werkzeug.debug as dbg
    from werkzeug.sansio import utils as SU

    D = dbg.DebuggedApplication
    reach = Reach(rec, {"host_is_trusted": opt(lambda: SU.host_is_trusted), "get_host": opt(lambda: SU.get_host), "DebuggedApplication.check_pin_trust": opt(lambda: D.check_pin_trust),
                        "DebuggedApplication.check_host_trust": opt(lambda: D.check_host_trust), "DebuggedApplication.pin_auth": opt(lambda: D.pin_auth), "DebuggedApplication._fail_pin_auth": opt(lambda: D._fail_pin_auth),
                        "DebuggedApplication.execute_command": opt(lambda: D.execute_command), "DebuggedApplication.display_console": opt(lambda: D.display_console),
                        "DebuggedApplication.log_pin_request": opt(lambda: D.log_pin_request), "DebuggedApplication.__call__": opt(lambda: D.__call__)})
    cfg = TIERS[shard["_tier"]]
    idx, of = shard["index"], shard["of"]
    check_hosts(rec, rng, idx, of)
    check_debugger(rec, idx, of)
    if idx % 8 == 3:
        check_debugger_histories_and_schedules(rec, rng)
        check_pin_configuration_and_real_tracebacks(rec, rng)
        check_pin_generation_faults(rec, rng)
    check_pin_histories(rec, idx, min(of, 27), cfg["hist_len"]) if idx < 27 else None
    reach.finish()


def replay(case, rec):
    rec.case()
    if case.get("part") == "host":
        from werkzeug.sansio.utils import host_is_trusted

        try:
            got = host_is_trusted(case["host"], case["trusted"])
            if got not in ref_trusted(case["host"], case["trusted"]):
                rec.violation("C20/host-verdict-differs", f"{got}", case)
        except Exception as e:  # noqa: BLE001
            rec.violation(f"C20/host_is_trusted-raises-{type(e).__name__}", repr(e), case)
    else:
        rec.note("debugger / pin replay: re-run the tier (exhaustive product, deterministic)")
