import random, collections, itertools
from urllib.parse import unquote, urlsplit, unquote_to_bytes
from werkzeug.test import EnvironBuilder
from werkzeug.wrappers import Request
from werkzeug.datastructures import MultiDict
from werkzeug.middleware.dispatcher import DispatcherMiddleware
from werkzeug.urls import iri_to_uri
rnd=random.Random(12)
bad=collections.Counter(); ex={}
def note(k,v): bad[k]+=1; ex.setdefault(k,v)
CH=["a","é","☃","😀"," ","%","+","&","=",";",":","@","!","$","'","(",")","*",",","~",".","-","_","\x7f","\u00a0","\u2028","/","%41","%C3%A9","%2F","%25","[","]","{","|","\\","^","`","<",">","\""]
HOSTS=["example.com","☃.net","xn--n3h.net","127.0.0.1","[::1]","EXAMPLE.com","a.b.c"]
for it in range(20000):
    path="/"+"".join(rnd.choice(CH) for _ in range(rnd.randint(0,6)))
    if unquote(path).startswith("//"): continue
    q=MultiDict([("".join(rnd.choice(CH+["?","#"]) for _ in range(rnd.randint(1,3))),"".join(rnd.choice(CH+["?","#"]) for _ in range(rnd.randint(0,3)))) for _ in range(rnd.randint(0,3))])
    scheme=rnd.choice(["http","https"]); host=rnd.choice(HOSTS); port=rnd.choice(["",":80",":443",":8080"]); root=rnd.choice(["","/app","/é p"])
    base=f"{scheme}://{host}{port}{root}/"
    try:
        b=EnvironBuilder(path=path,base_url=base,query_string=q); r=b.get_request(Request); b.close()
    except Exception as e: note("EXC-"+type(e).__name__,(path,base,str(e)[:60])); continue
    try:
        if r.path!=unquote(path): note("path",(path,r.path))
        if list(r.args.items(multi=True))!=list(q.items(multi=True)): note("args",(list(q.items(multi=True)),list(r.args.items(multi=True))))
        exp_host=host.lower() if False else host
        dport=":80" if scheme=="http" else ":443"
        eh=iri_to_uri("//"+host)[2:]+("" if port==dport else port)
        if r.host.lower()!=eh.lower(): note("host",(base,r.host,eh))
        if r.root_path!=unquote(root): note("root",(root,r.root_path))
        u=urlsplit(iri_to_uri(r.url)); ue=urlsplit(iri_to_uri(base.rstrip("/")+path))
        if unquote_to_bytes(u.path)!=unquote_to_bytes(ue.path): note("url-path",(base,path,r.url))
        if u.scheme!=scheme: note("url-scheme",(r.url,))
    except Exception as e: note("EXC2-"+type(e).__name__,(path,base,str(e)[:60]))
# dispatcher
segs=["a","b","c","ab"]
mount_keys=["/a","/a/b","/a/b/c","/ab","/b"]
for k in range(0,len(mount_keys)+1):
    for mk in itertools.combinations(mount_keys,k):
        seen={}
        def mk_app(name):
            def app(env,sr): seen["r"]=(name,env["SCRIPT_NAME"],env["PATH_INFO"]); return []
            return app
        d=DispatcherMiddleware(mk_app("default"),{m:mk_app(m) for m in mk})
        for n in range(0,4):
            for parts in itertools.product(segs,repeat=n):
                for trail in ("","/"):
                    for sn in ("","/root"):
                        p="/"+"/".join(parts)+(trail if parts else "")
                        env={"PATH_INFO":p,"SCRIPT_NAME":sn}
                        d(env,None); name,s,pi=seen["r"]
                        cands=[m for m in mk if p==m or p.startswith(m+"/")]
                        exp=max(cands,key=len) if cands else "default"
                        if name!=exp: note("dispatch-mount",(mk,p,name,exp))
                        if s+pi!=sn+p: note("dispatch-concat",(mk,p,s,pi))
                        if exp!="default" and s!=sn+exp: note("dispatch-script",(mk,p,s,pi))
for k_,c in bad.most_common(): print(c,k_,ex[k_])
print("done")
