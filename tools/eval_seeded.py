#!/usr/bin/env python3
"""Evaluate the seeded property-breaking changes under /verif/seeded/<name>/ against the checks.

For each seeded change: make a scratch copy of /repo's working tree (outside /repo and /verif),
apply patch.diff there, (1) run the demonstration with and without the patch, (2) optionally run
the repository's own test-suite on the patched copy, (3) run the property's check (quick, then
thorough if quick misses) with VERIF_SRC pointing at the patched copy, evidence and replays
redirected to the scratch directory.  Results go to seeded/RESULTS.json and into each meta.json.

usage: tools/eval_seeded.py [--tests] [--thorough] [name ...]
(The manifest's checks read /repo/src by default; `git -C /repo apply <patch>; ./vcheck ...;
git -C /repo checkout -- .` is the equivalent in-place procedure.)
"""
import json
import os
import shutil
import subprocess
import sys
import tempfile
import time

ROOT = os.path.dirname(os.path.dirname(os.path.abspath(__file__)))
PY = "/venv/bin/python"


def sh(cmd, **kw):
    return subprocess.run(cmd, capture_output=True, text=True, **kw)


def evaluate(name, run_tests=False, allow_thorough=True):
    d = os.path.join(ROOT, "seeded", name)
    meta_p = os.path.join(d, "meta.json")
    meta = json.load(open(meta_p)) if os.path.exists(meta_p) else {}
    pid = meta.get("property") or name.split("-")[0]
    tmp = tempfile.mkdtemp(prefix=f"seeded-{name}-")
    res = {"name": name, "property": pid}
    try:
        wt = os.path.join(tmp, "wt")
        r = sh(["git", "-C", "/repo", "worktree", "add", "-q", "--detach", wt, "HEAD"])
        if r.returncode:
            res["error"] = r.stderr[-300:]
            return res
        try:
            demo = os.path.join(d, "demo.py")
            env = dict(os.environ, PYTHONPATH=os.path.join(wt, "src"), PYTHONDONTWRITEBYTECODE="1")
            if os.path.exists(demo):
                r0 = sh(["timeout", "300", PY, demo], env=env, cwd=tmp)
                res["demo_unpatched_rc"] = r0.returncode
            r = sh(["git", "-C", wt, "apply", os.path.join(d, "patch.diff")])
            if r.returncode:
                res["error"] = "patch does not apply: " + r.stderr[-300:]
                return res
            if os.path.exists(demo):
                r1 = sh(["timeout", "300", PY, demo], env=env, cwd=tmp)
                res["demo_patched_rc"] = r1.returncode
                res["demo_patched_out"] = (r1.stdout + r1.stderr)[-300:]
            if run_tests:
                rt = sh(["timeout", "900", PY, "-m", "pytest", "-q", "-p", "no:cacheprovider", "-x", "tests/"], env=env, cwd=wt)
                res["tests_tail"] = rt.stdout.strip().splitlines()[-1] if rt.stdout.strip() else rt.stderr[-200:]
            for tier in (["quick", "thorough"] if allow_thorough else ["quick"]):
                venv = dict(os.environ, VERIF_SRC=os.path.join(wt, "src"), VERIF_EVIDENCE_DIR=os.path.join(tmp, "ev"), VERIF_REPLAY_DIR=os.path.join(tmp, "rp"))
                t0 = time.time()
                rc = sh(["timeout", "3000", os.path.join(ROOT, "vcheck"), pid, "--tier", tier], env=venv, cwd=ROOT)
                keys = [ln.strip()[:220] for ln in rc.stdout.splitlines() if ln.strip().startswith("key=")]
                res[f"{tier}_rc"] = rc.returncode
                res[f"{tier}_wall"] = round(time.time() - t0, 1)
                res[f"{tier}_keys"] = keys[:5]
                if rc.returncode == 1 and f"VIOLATION property={pid}" in rc.stdout:
                    res["caught_by"] = tier
                    break
                res[f"{tier}_tail"] = rc.stdout[-300:]
            else:
                res["caught_by"] = None
        finally:
            sh(["git", "-C", "/repo", "worktree", "remove", "--force", wt])
    finally:
        shutil.rmtree(tmp, ignore_errors=True)
    meta["last_evaluation"] = {k: v for k, v in res.items() if k not in ("name",)}
    if os.path.exists(os.path.dirname(meta_p)):
        with open(meta_p, "w") as f:
            json.dump(meta, f, indent=1)
    return res


def main(argv):
    run_tests = "--tests" in argv
    names = [a for a in argv if not a.startswith("--")]
    if not names:
        names = sorted(n for n in os.listdir(os.path.join(ROOT, "seeded")) if os.path.isdir(os.path.join(ROOT, "seeded", n)))
    out_p = os.environ.get("EVAL_RESULTS") or os.path.join(ROOT, "seeded", "RESULTS.json")
    for n in names:
        r = evaluate(n, run_tests=run_tests, allow_thorough="--quick-only" not in argv)
        # re-read before writing: several evaluations may run side by side
        results = json.load(open(out_p)) if os.path.exists(out_p) else {}
        results[n] = r
        print(n, "caught_by=", r.get("caught_by"), "demo", r.get("demo_unpatched_rc"), "->", r.get("demo_patched_rc"), r.get("tests_tail", ""), (r.get("quick_keys") or r.get("thorough_keys") or [r.get("error", "")])[:1], flush=True)
        with open(out_p, "w") as f:
            json.dump(results, f, indent=1)


if __name__ == "__main__":
    main(sys.argv[1:])
