import collections, sys, re
from werkzeug import http
from werkzeug.sansio.http import parse_cookie as sp
bad=collections.Counter(); ex={}
OCT=set(range(0x21,0x7f))-{0x22,0x2c,0x3b,0x5c}
def lex_ok(v):
    if not v.isascii(): return "nonascii"
    if v.startswith('"') and v.endswith('"') and len(v)>=2:
        inner=v[1:-1]; i=0
        while i<len(inner):
            c=inner[i]
            if c=="\\":
                if inner[i+1:i+2] in('"','\\'): i+=2; continue
                if re.match(r"[0-3][0-7]{2}",inner[i+1:i+4]): i+=4; continue
                return "bad-escape"
            if ord(c) in OCT or c==" ": i+=1; continue
            return "raw-%02x"%ord(c)
        return None
    for c in v:
        if ord(c) not in OCT: return "unquoted-raw-%02x"%ord(c)
    return None
for cp in range(0x110000):
    if 0xD800<=cp<=0xDFFF: continue
    for val in (chr(cp), "a"+chr(cp)+"b"):
        h=http.dump_cookie("k",val,max_size=0)
        pair=h.split("; ")[0]; v=pair[2:]
        p=lex_ok(v)
        if p: bad[p]+=1; ex.setdefault(p,(hex(cp),h))
        if h.split("; ")[1:]!=["Path=/"] or len(h.split(";"))!=2: bad["attr-inject"]+=1; ex.setdefault("attr-inject",(hex(cp),h))
        r=sp(pair).get("k")
        if r!=val: bad["rt-sansio"]+=1; ex.setdefault("rt-sansio",(hex(cp),h,r))
        r=http.parse_cookie({"HTTP_COOKIE":pair}).get("k")
        if r!=val: bad["rt-environ"]+=1; ex.setdefault("rt-environ",(hex(cp),h,r))
    if cp==0x2ff and len(sys.argv)<2: break
for k,c in bad.most_common(): print(c,k,ex[k])
print("done")
