import io, itertools, collections
from http import HTTPStatus
from werkzeug.wrappers import Response
from werkzeug.wsgi import FileWrapper
from werkzeug.test import create_environ
bad=collections.Counter(); ex={}
def note(k,v): bad[k]+=1; ex.setdefault(k,v)
class CloseSpy:
    def __init__(s,chunks): s.it=iter(chunks); s.closed=0
    def __iter__(s): return s
    def __next__(s): return next(s.it)
    def close(s): s.closed+=1
class FSpy(io.BytesIO):
    closed_n=0
    def close(s): s.closed_n+=1; super().close()
def mkbody(kind):
    spies=[]
    if kind=="str": return "héllo",b"h\xc3\xa9llo",spies
    if kind=="bytes": return b"hello",b"hello",spies
    if kind=="list": return [b"he",b"",b"llo"],b"hello",spies
    if kind=="liststr": return ["hé","","llo"],"héllo".encode(),spies
    if kind=="tuple": return (b"he",b"llo"),b"hello",spies
    if kind=="gen": return (x for x in [b"he",b"llo"]),b"hello",spies
    if kind=="genstr": return (x for x in ["hé","llo"]),"héllo".encode(),spies
    if kind=="closable":
        s=CloseSpy([b"he",b"llo"]); spies.append(("iter",lambda:s.closed)); return s,b"hello",spies
    if kind=="fw":
        f=FSpy(b"hello"); spies.append(("file",lambda:f.closed_n)); return FileWrapper(f,2),b"hello",spies
    if kind=="empty": return None,b"",spies
KINDS=["str","bytes","list","liststr","tuple","gen","genstr","closable","fw","empty"]
STAT=[100,101,199,200,201,204,205,206,301,304,404,500,599,HTTPStatus.OK,HTTPStatus.NO_CONTENT,"200 OK","204 NO CONTENT","304 whatever","404 NOT FOUND","299 custom reason"]
n=0
for kind,status,method,cl,loc,auto,ncb,inspect in itertools.product(KINDS,STAT,["GET","HEAD","POST"],[None,"correct","wrong"],[None,"/rel?x=1","http://é.example/pä th?q=ü","//other/p"],[True,False],[0,2],[False,True]):
    n+=1
    body,expected,spies=mkbody(kind)
    r=Response(body,status=status,direct_passthrough=(kind=="fw"))
    if cl=="correct": r.headers["Content-Length"]=str(len(expected))
    elif cl=="wrong": r.headers["Content-Length"]="3"
    if loc: r.headers["Location"]=loc
    r.autocorrect_location_header=auto
    cbs=[]
    for i in range(ncb):
        c=[0]; cbs.append(c); r.call_on_close(lambda c=c: c.__setitem__(0,c[0]+1))
    if inspect and kind!="fw": r.calculate_content_length()
    env=create_environ(method=method)
    cell=(kind,status,method,cl,loc,auto,ncb,inspect)
    try:
        it,st,hd=r.get_wsgi_response(env)
        data=b"".join(it)
        if hasattr(it,"close"): it.close()
    except Exception as e: note("EXC-"+type(e).__name__,(cell,str(e)[:60])); continue
    code=int(st[:3])
    for k,v in hd:
        if type(k) is not str or type(v) is not str: note("H1-type",(cell,k,v))
        elif "\r" in v or "\n" in v: note("H1-crlf",(cell,k,v))
    hdd={k.lower():v for k,v in hd}
    bodyless=method=="HEAD" or 100<=code<200 or code in(204,304)
    if bodyless and data: note("H4-body",(cell,data))
    if (100<=code<200 or code==204) and "content-length" in hdd: note("H4-cl",(cell,hdd["content-length"]))
    if not bodyless and data!=expected: note("body-mismatch",(cell,data,expected))
    if "content-length" in hdd and cl is None and not bodyless and int(hdd["content-length"])!=len(data): note("H2",(cell,hdd["content-length"],len(data)))
    if "content-length" in hdd and cl is None and method=="HEAD" and not(100<=code<200 or code in(204,304)) and int(hdd["content-length"])!=len(expected): note("H2-head",(cell,hdd["content-length"],len(expected)))
    if loc:
        L=hdd.get("location")
        if L is None or not L.isascii() or any(ch in L for ch in " \t\r\n<>\""): note("H3",(cell,L))
    for c in cbs:
        if c[0]!=1: note("H5-callback-%d"%c[0],cell)
    for name,get in spies:
        if get()!=1: note("H5-%s-%d"%(name,get()),cell)
print("cells",n)
for k_,c in bad.most_common(): print(c,k_,ex[k_])
print("done")
