import threading, asyncio, contextvars, random, sys, time, collections
from werkzeug.local import Local, LocalStack, release_local
bad=collections.Counter()
rnd=random.Random(2)
# (b) threads stepped by a turnstile
def run_threads(schedule, ops):
    loc=Local(); stk=LocalStack()
    n=len(ops); cond=threading.Condition(); turn=[None]; done=[False]*n; results=[[] for _ in range(n)]
    model=[({},[]) for _ in range(n)]
    def worker(i):
        k=0
        while True:
            with cond:
                cond.wait_for(lambda: turn[0]==i or turn[0]=="stop")
                if turn[0]=="stop": return
                if k<len(ops[i]):
                    op=ops[i][k]; k+=1; md,ms=model[i]
                    if op=="set": v=(i,k); loc.x=v; model[i]=({**md,"x":v},ms)
                    elif op=="push": v=(i,k); stk.push(v); model[i]=(md,ms+[v])
                    elif op=="pop": stk.pop(); model[i]=(md,ms[:-1])
                    elif op=="del":
                        try: del loc.x
                        except AttributeError: pass
                        model[i]=({},ms)
                    elif op=="release": release_local(loc); release_local(stk); model[i]=({},[])
                # read back own view
                got=(dict(list(loc)),stk.top)
                exp=(model[i][0],model[i][1][-1] if model[i][1] else None)
                if got!=exp: bad["thread-leak"]+=1
                turn[0]=None; cond.notify_all()
    ts=[threading.Thread(target=worker,args=(i,),daemon=True) for i in range(n)]
    for t in ts: t.start()
    for who in schedule:
        with cond:
            turn[0]=who; cond.notify_all(); cond.wait_for(lambda: turn[0] is None)
    with cond: turn[0]="stop"; cond.notify_all()
    for t in ts: t.join(5)
t0=time.time()
for it in range(300):
    ops=[[rnd.choice(["set","push","pop","del","release"]) for _ in range(4)] for _ in range(3)]
    sched=[0]*4+[1]*4+[2]*4; rnd.shuffle(sched)
    run_threads(sched,ops)
print("threads stepped: 300 schedules in %.2fs"%(time.time()-t0), dict(bad))
# (c) asyncio parent/child snapshot
async def amain():
    loc=Local(); stk=LocalStack()
    loc.x="parent"; stk.push("p")
    ev1=asyncio.Event(); ev2=asyncio.Event(); seen={}
    async def child():
        seen["c0"]=(loc.x,stk.top)
        loc.x="child"; stk.push("c")
        ev1.set(); await ev2.wait()
        seen["c1"]=(loc.x,stk.top,getattr(loc,"y",None))
    t=asyncio.create_task(child())
    await ev1.wait()
    seen["p0"]=(loc.x,stk.top)
    loc.y="late"; stk.pop()
    ev2.set(); await t
    seen["p1"]=(loc.x,stk.top)
    return seen
print(asyncio.run(amain()))
# (stress) yield injection with sys.monitoring LINE in local.py
import werkzeug.local as L
mon=sys.monitoring; TOOL=mon.DEBUGGER_ID; mon.use_tool_id(TOOL,"yield")
inj=[0]; rr=random.Random(1)
def on_line(code,line):
    if rr.random()<0.3: inj[0]+=1; time.sleep(0)
mon.register_callback(TOOL,mon.events.LINE,on_line)
for f in (L.Local.__setattr__,L.Local.__getattr__,L.Local.__delattr__,L.LocalStack.push,L.LocalStack.pop):
    mon.set_local_events(TOOL,f.__code__,mon.events.LINE)
loc=Local(); stk=LocalStack(); errs=[0]
def stress(i):
    r=random.Random(i); md={}; ms=[]
    for k in range(3000):
        op=r.randint(0,3)
        if op==0: v=(i,k); loc.x=v; md["x"]=v
        elif op==1: v=(i,k); stk.push(v); ms.append(v)
        elif op==2 and ms: 
            if stk.pop()!=ms.pop(): errs[0]+=1
        if getattr(loc,"x",None)!=md.get("x") or stk.top!=(ms[-1] if ms else None): errs[0]+=1
t0=time.time(); ts=[threading.Thread(target=stress,args=(i,)) for i in range(8)]
for t in ts: t.start()
for t in ts: t.join()
print("stress 8x3000 ops: %.2fs injected yields=%d errors=%d"%(time.time()-t0,inj[0],errs[0]))
