#!/usr/bin/env python3
"""Which lines of the files a property is anchored in did the property's workload execute?

Runs `./vcheck <ID> --tier <tier>` with VERIF_LINECOV set (workers record every werkzeug line once through a
sys.monitoring LINE callback, see verif/core/runner.py), merges the per-worker files and reports, per function of the
anchored files, the executable lines no worker reached.  A monitor has no opinion on code its workload never drives;
this is the map of where that is.  Nothing here decides a property - it steers where workloads are widened.

usage: tools/line_reach.py [--tier quick] [--json line_reach.json] [IDs ...]
"""
import argparse
import json
import os
import shutil
import subprocess
import sys
import tempfile

ROOT = os.path.dirname(os.path.dirname(os.path.abspath(__file__)))
SRC = os.environ.get("VERIF_SRC", "/repo/src")


def functions_of(path):
    """(qualified name, first line, set of executable lines) for every function / method / nested function."""
    src = open(path, encoding="utf-8").read()
    top = compile(src, path, "exec")
    src_lines = src.split("\n")
    out = []

    def walk(code, qual):
        for c in code.co_consts:
            if hasattr(c, "co_code"):
                name = c.co_name
                q = f"{qual}.{name}" if qual else name
                lines = {ln for _, _, ln in c.co_lines() if ln is not None}
                # the def line itself and docstring-only lines are not events of interest
                lines.discard(c.co_firstlineno)
                kind_class = "__qualname__" in c.co_names and "__module__" in c.co_names
                stub = len(lines) <= 1 and all(src_lines[ln - 1].strip() in ("...", "pass") or src_lines[ln - 1].strip().endswith(": ...") for ln in lines)
                if not kind_class and lines and not stub:
                    own = set(lines)
                    for cc in c.co_consts:
                        if hasattr(cc, "co_code"):
                            own -= {ln for _, _, ln in cc.co_lines() if ln is not None and ln != cc.co_firstlineno}
                    out.append((q, c.co_firstlineno, own))
                walk(c, q)

    walk(top, "")
    return out


def main():
    ap = argparse.ArgumentParser()
    ap.add_argument("--tier", default="quick")
    ap.add_argument("--json", default=None)
    ap.add_argument("--all-files", action="store_true", help="report every werkzeug file touched, not only the anchored ones")
    ap.add_argument("ids", nargs="*")
    a = ap.parse_args()
    props = [json.loads(line) for line in open(os.path.join(ROOT, "properties.jsonl"))]
    ids = a.ids or [p["id"] for p in props]
    report = {}
    for p in props:
        if p["id"] not in ids:
            continue
        d = tempfile.mkdtemp(prefix=f"linereach-{p['id']}-")
        try:
            env = dict(os.environ, VERIF_LINECOV=d, VERIF_EVIDENCE_DIR=os.path.join(d, "ev"), VERIF_REPLAY_DIR=os.path.join(d, "rp"))
            r = subprocess.run([os.path.join(ROOT, "vcheck"), p["id"], "--tier", a.tier], env=env, cwd=ROOT, capture_output=True, text=True)
            seen = {}
            for fn in os.listdir(d):
                if fn.endswith(".json"):
                    for k, v in json.load(open(os.path.join(d, fn))).items():
                        seen.setdefault(k, set()).update(v)
        finally:
            shutil.rmtree(d, ignore_errors=True)
        files = [f[len("src/"):] if f.startswith("src/") else f for f in p["anchors"]["files"]]
        if a.all_files:
            files = sorted(set(files) | set(seen))
        per_file = {}
        tot_exec = tot_hit = 0
        for rel in files:
            path = os.path.join(SRC, rel)
            if not os.path.exists(path):
                continue
            hit = seen.get(rel, set())
            fl = []
            for q, first, lines in functions_of(path):
                missed = sorted(lines - hit)
                tot_exec += len(lines)
                tot_hit += len(lines) - len(missed)
                if missed:
                    fl.append({"function": q, "line": first, "executable": len(lines), "missed": missed, "entered": bool(lines & hit)})
            per_file[rel] = fl
        report[p["id"]] = {"tier": a.tier, "rc": r.returncode, "anchored_lines": tot_exec, "reached": tot_hit, "files": per_file}
        print(f"== {p['id']} ({a.tier}, rc={r.returncode}): {tot_hit}/{tot_exec} executable lines of the anchored files reached")
        for rel, fl in per_file.items():
            never = [f for f in fl if not f["entered"]]
            part = [f for f in fl if f["entered"]]
            print(f"  {rel}: {len(never)} functions never entered, {len(part)} partly reached")
            for f in part:
                print(f"     partly  {f['function']} (l.{f['line']}): missed {f['missed']}")
            for f in never:
                print(f"     never   {f['function']} (l.{f['line']}, {f['executable']} lines)")
    if a.json:
        with open(a.json, "w") as f:
            json.dump(report, f, indent=1)
    return 0


if __name__ == "__main__":
    sys.exit(main())
